module verif/simgo

go 1.23

// simgo: source-to-source instrumenter. It rewrites, in place, the non-test Go files of the given
// package directories (which must be a scratch copy, never /repo itself) so that every source of
// nondeterminism goes through verif/simrt:
//
//	chan make/send/recv/close/len/cap/range, select, go, sync.{Mutex,RWMutex,WaitGroup,Once,Cond},
//	time.{Sleep,Now,Since,Until,After,AfterFunc,NewTimer,NewTicker,Tick,Timer,Ticker},
//	runtime.Gosched, and every `range` over a map.
//
// With -maponly only range-over-map is rewritten (sequential packages).
//
// The rewriting is driven by syntactic/type categories (go/types with export data from
// `go list -export`), not by positions, so an edited /repo is instrumented the same way.
//
// Exit codes: 0 ok; 3 = the code uses a construct the model does not cover ("UNSUPPORTED ...");
// 2 = parse/type-check/IO trouble. The check driver maps both to exit 2 (inconclusive).
package main

import (
	"bytes"
	"encoding/json"
	"flag"
	"fmt"
	"go/ast"
	"go/format"
	"go/importer"
	"go/parser"
	"go/token"
	"go/types"
	"io"
	"os"
	"os/exec"
	"path/filepath"
	"reflect"
	"strconv"
	"strings"
)

var (
	mapOnly = flag.Bool("maponly", false, "rewrite only range-over-map")
	quiet   = flag.Bool("q", false, "do not list rewritten files")
	fset    = token.NewFileSet()
	info    *types.Info
	tmpN    int
	used    bool // current file uses simrt
	labeled map[ast.Stmt]bool
	counts  = map[string]int{}
)

func die(pos token.Pos, format string, a ...interface{}) {
	fmt.Fprintf(os.Stderr, "simgo: UNSUPPORTED %s: %s\n", fset.Position(pos), fmt.Sprintf(format, a...))
	os.Exit(3)
}

func fatal(a ...interface{}) {
	fmt.Fprintln(os.Stderr, append([]interface{}{"simgo:"}, a...)...)
	os.Exit(2)
}

func main() {
	flag.Parse()
	// export data of every package's dependencies is collected before the first file is rewritten:
	// afterwards a dependency that was already instrumented imports verif/simrt, which the module of
	// the copy does not know, and `go list -export` of its dependents would fail
	exportsOf := map[string]map[string]string{}
	for _, dir := range flag.Args() {
		exportsOf[dir] = loadExports(dir)
	}
	for _, dir := range flag.Args() {
		instrumentDir(dir, exportsOf[dir])
	}
	if !*quiet {
		b, _ := json.Marshal(counts)
		fmt.Fprintf(os.Stderr, "simgo: rewrites %s\n", b)
	}
}

func loadExports(dir string) map[string]string {
	cmd := exec.Command("go", "list", "-deps", "-export", "-json=ImportPath,Export", ".")
	cmd.Dir = dir
	cmd.Stderr = os.Stderr
	out, err := cmd.Output()
	if err != nil {
		fatal("go list failed in", dir, ":", err)
	}
	exports := map[string]string{}
	dec := json.NewDecoder(bytes.NewReader(out))
	for {
		var p struct{ ImportPath, Export string }
		if err := dec.Decode(&p); err == io.EOF {
			break
		} else if err != nil {
			fatal(err)
		}
		exports[p.ImportPath] = p.Export
	}
	return exports
}

func instrumentDir(dir string, exports map[string]string) {
	imp := importer.ForCompiler(fset, "gc", func(path string) (io.ReadCloser, error) {
		f := exports[path]
		if f == "" {
			return nil, fmt.Errorf("no export data for %s", path)
		}
		return os.Open(f)
	})
	matches, _ := filepath.Glob(filepath.Join(dir, "*.go"))
	var files []*ast.File
	var names []string
	for _, m := range matches {
		if strings.HasSuffix(m, "_test.go") {
			continue
		}
		f, err := parser.ParseFile(fset, m, nil, parser.ParseComments)
		if err != nil {
			fatal("parse:", err)
		}
		files = append(files, f)
		names = append(names, m)
	}
	if len(files) == 0 {
		return
	}
	info = &types.Info{
		Types: map[ast.Expr]types.TypeAndValue{},
		Uses:  map[*ast.Ident]types.Object{},
		Defs:  map[*ast.Ident]types.Object{},
	}
	conf := types.Config{Importer: imp}
	if _, err := conf.Check(files[0].Name.Name, fset, files, info); err != nil {
		fatal("typecheck:", err)
	}
	for i, f := range files {
		used = false
		labeled = map[ast.Stmt]bool{}
		ast.Inspect(f, func(n ast.Node) bool {
			if l, ok := n.(*ast.LabeledStmt); ok {
				labeled[l.Stmt] = true
			}
			return true
		})
		rewrite(f)
		if !used {
			continue
		}
		addImport(f)
		dropUnusedImports(f, "sync", "time", "runtime", "sync/atomic", "context", "sort")
		var buf bytes.Buffer
		var src bytes.Buffer
		if err := format.Node(&src, fset, f); err != nil {
			fatal("format:", err)
		}
		buf.Write(withLanguageVersion(src.Bytes(), dir))
		if err := os.WriteFile(names[i], buf.Bytes(), 0o644); err != nil {
			fatal(err)
		}
		if !*quiet {
			fmt.Fprintf(os.Stderr, "simgo: rewrote %s\n", names[i])
		}
	}
}

// ---------- generic reflective rewriter ----------

// rewrite walks n; pre may return a replacement (its children are then not revisited);
// post is applied bottom-up.
func rewrite(n ast.Node) ast.Node {
	if n == nil || reflect.ValueOf(n).IsNil() {
		return n
	}
	if r, done := pre(n); done {
		return r
	}
	v := reflect.ValueOf(n).Elem()
	for i := 0; i < v.NumField(); i++ {
		f := v.Field(i)
		if !f.CanSet() {
			continue
		}
		switch f.Kind() {
		case reflect.Interface, reflect.Ptr:
			if f.IsNil() {
				continue
			}
			switch f.Interface().(type) {
			case *ast.Object, *ast.Scope:
				continue
			}
			if c, ok := f.Interface().(ast.Node); ok {
				r := rewrite(c)
				if r != c {
					f.Set(reflect.ValueOf(r))
				}
			}
		case reflect.Slice:
			for j := 0; j < f.Len(); j++ {
				e := f.Index(j)
				if e.Kind() != reflect.Interface && e.Kind() != reflect.Ptr {
					break
				}
				if e.IsNil() {
					continue
				}
				if c, ok := e.Interface().(ast.Node); ok {
					r := rewrite(c)
					if r != c {
						e.Set(reflect.ValueOf(r))
					}
				}
			}
		}
	}
	return post(n)
}

func rewriteExpr(e ast.Expr) ast.Expr {
	if e == nil {
		return nil
	}
	return rewrite(e).(ast.Expr)
}

func sel(name string) ast.Expr {
	used = true
	return &ast.SelectorExpr{X: ast.NewIdent("simrt"), Sel: ast.NewIdent(name)}
}

func call(name string, args ...ast.Expr) *ast.CallExpr {
	return &ast.CallExpr{Fun: sel(name), Args: args}
}

func tmp(prefix string) *ast.Ident {
	tmpN++
	return ast.NewIdent(fmt.Sprintf("_%s%d", prefix, tmpN))
}

func isChan(e ast.Expr) bool {
	t := info.TypeOf(e)
	if t == nil {
		return false
	}
	_, ok := t.Underlying().(*types.Chan)
	return ok
}

func isMap(e ast.Expr) bool {
	t := info.TypeOf(e)
	if t == nil {
		return false
	}
	_, ok := t.Underlying().(*types.Map)
	return ok
}

func pkgSel(e ast.Expr) (pkg, name string, ok bool) {
	s, ok := e.(*ast.SelectorExpr)
	if !ok {
		return
	}
	id, ok := s.X.(*ast.Ident)
	if !ok {
		return "", "", false
	}
	pn, ok := info.Uses[id].(*types.PkgName)
	if !ok {
		return "", "", false
	}
	return pn.Imported().Path(), s.Sel.Name, true
}

func pre(n ast.Node) (ast.Node, bool) {
	switch s := n.(type) {
	case *ast.RangeStmt:
		if isMap(s.X) {
			return rewriteMapRange(s), true
		}
		if !*mapOnly && isChan(s.X) {
			return rewriteChanRange(s), true
		}
	case *ast.SelectStmt:
		if !*mapOnly {
			return rewriteSelect(s), true
		}
	case *ast.GoStmt:
		if !*mapOnly {
			return rewriteGo(s), true
		}
	case *ast.AssignStmt:
		// v, ok := <-ch
		if !*mapOnly && len(s.Lhs) == 2 && len(s.Rhs) == 1 {
			if u, ok := unparen(s.Rhs[0]).(*ast.UnaryExpr); ok && u.Op == token.ARROW {
				counts["recv2"]++
				s.Rhs[0] = call("Recv2", rewriteExpr(u.X))
				for i := range s.Lhs {
					s.Lhs[i] = rewriteExpr(s.Lhs[i])
				}
				return s, true
			}
		}
	case *ast.ValueSpec:
		// var v, ok = <-ch
		if !*mapOnly && len(s.Names) == 2 && len(s.Values) == 1 {
			if u, ok := unparen(s.Values[0]).(*ast.UnaryExpr); ok && u.Op == token.ARROW {
				counts["recv2"]++
				s.Values[0] = call("Recv2", rewriteExpr(u.X))
				if s.Type != nil {
					s.Type = rewriteExpr(s.Type)
				}
				return s, true
			}
		}
	}
	return nil, false
}

func unparen(e ast.Expr) ast.Expr {
	for {
		p, ok := e.(*ast.ParenExpr)
		if !ok {
			return e
		}
		e = p.X
	}
}

func post(n ast.Node) ast.Node {
	if *mapOnly {
		return n
	}
	switch s := n.(type) {
	case *ast.SendStmt:
		counts["send"]++
		return &ast.ExprStmt{X: call("Send", s.Chan, s.Value)}
	case *ast.UnaryExpr:
		if s.Op == token.ARROW {
			counts["recv"]++
			return call("Recv", s.X)
		}
	case *ast.CallExpr:
		if id, ok := s.Fun.(*ast.Ident); ok {
			if _, isBuiltin := info.Uses[id].(*types.Builtin); isBuiltin {
				switch id.Name {
				case "make":
					if ct, ok := s.Args[0].(*ast.ChanType); ok {
						used = true
						counts["make"]++
						return &ast.CallExpr{Fun: &ast.IndexExpr{X: sel("Make"), Index: ct.Value}, Args: s.Args[1:]}
					} else if isChanTypeExpr(s.Args[0]) {
						// make(T, n) with `type T chan E`: the element type follows from T's constraint
						used = true
						counts["make"]++
						return &ast.CallExpr{Fun: &ast.IndexExpr{X: sel("MakeNamed"), Index: s.Args[0]}, Args: s.Args[1:]}
					}
				case "close":
					counts["close"]++
					return call("Close", s.Args...)
				case "len", "cap":
					if isChan(s.Args[0]) {
						return call(strings.Title(id.Name), s.Args...)
					}
				}
			}
		}
	case *ast.SelectorExpr:
		if p, name, ok := pkgSel(s); ok {
			switch p {
			case "time":
				switch name {
				case "Sleep", "Now", "Since", "Until", "After", "AfterFunc", "NewTimer", "NewTicker", "Tick", "Timer", "Ticker":
					counts["time."+name]++
					return sel(name)
				}
			case "sync":
				switch name {
				case "Mutex", "RWMutex", "WaitGroup", "Once", "Cond", "NewCond", "Locker", "OnceFunc", "OnceValue", "OnceValues":
					counts["sync."+name]++
					return sel(name)
				case "Pool":
					counts["sync.Pool"]++
					return sel("Pool")
				case "Map":
					counts["sync.Map"]++
					return sel("Map")
				default:
					die(s.Pos(), "sync.%s", name)
				}
			case "sync/atomic":
				counts["atomic."+name]++
				switch name {
				case "Int32", "Int64", "Uint32", "Uint64", "Uintptr", "Bool", "Pointer", "Value":
					return sel("Atomic" + name)
				}
				switch {
				case strings.HasPrefix(name, "Load"), strings.HasPrefix(name, "Store"), strings.HasPrefix(name, "Add"),
					strings.HasPrefix(name, "Swap"), strings.HasPrefix(name, "CompareAndSwap"):
					return sel(name)
				}
				die(s.Pos(), "sync/atomic.%s", name)
			case "sort":
				// the comparisons of a sort become preemption points: two goroutines sorting the same
				// slice in place only go wrong if they interleave
				switch name {
				case "Slice", "SliceStable", "Strings", "Ints", "Float64s", "Sort", "Stable":
					counts["sort."+name]++
					return sel("Sort" + name)
				}
			case "runtime":
				if name == "Gosched" {
					return sel("Yield")
				}
			case "context":
				switch name {
				case "WithTimeout", "WithDeadline":
					counts["context."+name]++
					return sel(name)
				case "AfterFunc":
					counts["context.AfterFunc"]++
					return sel("ContextAfterFunc")
				case "WithTimeoutCause", "WithDeadlineCause":
					die(s.Pos(), "context.%s inside instrumented code (its timers run on the real clock)", name)
				}
			}
		}
	}
	return n
}

func isChanTypeExpr(e ast.Expr) bool {
	tv, ok := info.Types[e]
	if !ok || !tv.IsType() {
		return false
	}
	_, isC := tv.Type.Underlying().(*types.Chan)
	return isC
}

func rewriteList(l []ast.Stmt) []ast.Stmt {
	for i, s := range l {
		l[i] = rewrite(s).(ast.Stmt)
	}
	return l
}

func plainOperand(e ast.Expr) bool {
	switch x := e.(type) {
	case *ast.Ident:
		return true
	case *ast.SelectorExpr:
		return plainOperand(x.X)
	case *ast.StarExpr:
		return plainOperand(x.X)
	case *ast.ParenExpr:
		return plainOperand(x.X)
	}
	return false
}

func isBlank(e ast.Expr) bool {
	if e == nil {
		return true
	}
	id, ok := e.(*ast.Ident)
	return ok && id.Name == "_"
}

// for k, v := range m  ==>
//
//	for _ks, _i, k, v := simrt.MapKeys(m), 0, simrt.ZeroK(m), simrt.ZeroV(m); _i < len(_ks); _i++ {
//	    k = _ks[_i]; var _ok bool; v, _ok = m[k]; if !_ok { continue }; body }
//
// A three-clause loop keeps the per-loop variable semantics of pre-1.22 Go; entries deleted during
// the loop are skipped, entries added during it are not visited (both allowed by the spec).
func rewriteMapRange(s *ast.RangeStmt) ast.Stmt {
	counts["maprange"]++
	mt := info.TypeOf(s.X).Underlying().(*types.Map)
	keysFn := "MapKeys"
	if b, ok := mt.Key().Underlying().(*types.Basic); !ok || b.Info()&(types.IsOrdered) == 0 {
		keysFn = "MapKeysAny" // pointers, structs, interfaces...: canonical order by a deep rendering of the key
	}
	var wrap []ast.Stmt
	m := s.X
	if !plainOperand(m) {
		if labeled[s] {
			die(s.Pos(), "labeled range over a map expression that is not a plain operand")
		}
		t := tmp("m")
		wrap = append(wrap, &ast.AssignStmt{Lhs: []ast.Expr{t}, Tok: token.DEFINE, Rhs: []ast.Expr{rewriteExpr(m)}})
		m = t
	}
	ks, i := tmp("ks"), tmp("i")
	body := rewriteList(s.Body.List)
	lhs := []ast.Expr{ks, i}
	rhs := []ast.Expr{call(keysFn, m), &ast.BasicLit{Kind: token.INT, Value: "0"}}
	var pro []ast.Stmt
	keyExpr := ast.Expr(&ast.IndexExpr{X: ks, Index: i})
	define := s.Tok == token.DEFINE
	if !isBlank(s.Key) {
		if define {
			lhs = append(lhs, s.Key)
			rhs = append(rhs, call("ZeroK", m))
		}
		pro = append(pro, &ast.AssignStmt{Lhs: []ast.Expr{s.Key}, Tok: token.ASSIGN, Rhs: []ast.Expr{keyExpr}})
		if define {
			pro = append(pro, &ast.AssignStmt{Lhs: []ast.Expr{ast.NewIdent("_")}, Tok: token.ASSIGN, Rhs: []ast.Expr{s.Key}})
		}
	}
	ok := tmp("ok")
	val := ast.Expr(ast.NewIdent("_"))
	if !isBlank(s.Value) {
		if define {
			lhs = append(lhs, s.Value)
			rhs = append(rhs, call("ZeroV", m))
		}
		val = s.Value
	}
	pro = append(pro,
		&ast.DeclStmt{Decl: &ast.GenDecl{Tok: token.VAR, Specs: []ast.Spec{&ast.ValueSpec{Names: []*ast.Ident{ok}, Type: ast.NewIdent("bool")}}}},
		&ast.AssignStmt{Lhs: []ast.Expr{val, ok}, Tok: token.ASSIGN, Rhs: []ast.Expr{&ast.IndexExpr{X: m, Index: &ast.IndexExpr{X: ks, Index: i}}}},
		&ast.IfStmt{Cond: &ast.UnaryExpr{Op: token.NOT, X: ok}, Body: &ast.BlockStmt{List: []ast.Stmt{&ast.BranchStmt{Tok: token.CONTINUE}}}},
	)
	if !isBlank(s.Value) && define {
		pro = append(pro, &ast.AssignStmt{Lhs: []ast.Expr{ast.NewIdent("_")}, Tok: token.ASSIGN, Rhs: []ast.Expr{s.Value}})
	}
	used = true
	loop := &ast.ForStmt{
		Init: &ast.AssignStmt{Lhs: lhs, Tok: token.DEFINE, Rhs: rhs},
		Cond: &ast.BinaryExpr{X: i, Op: token.LSS, Y: &ast.CallExpr{Fun: ast.NewIdent("len"), Args: []ast.Expr{ks}}},
		Post: &ast.IncDecStmt{X: i, Tok: token.INC},
		Body: &ast.BlockStmt{List: append(pro, body...)},
	}
	if wrap != nil {
		return &ast.BlockStmt{List: append(wrap, loop)}
	}
	return loop
}

// for v := range ch { body }  ==>  for v, _ok := simrt.RecvOK(ch); _ok; v, _ok = simrt.RecvOK(ch) { body }
func rewriteChanRange(s *ast.RangeStmt) ast.Stmt {
	counts["chanrange"]++
	if s.Tok == token.ASSIGN {
		die(s.Pos(), "range over channel assigning to an existing variable")
	}
	ch := s.X
	var wrap []ast.Stmt
	if !plainOperand(ch) {
		if labeled[s] {
			die(s.Pos(), "labeled range over a channel expression that is not a plain operand")
		}
		t := tmp("c")
		wrap = append(wrap, &ast.AssignStmt{Lhs: []ast.Expr{t}, Tok: token.DEFINE, Rhs: []ast.Expr{rewriteExpr(ch)}})
		ch = t
	}
	ok := tmp("ok")
	v := ast.Expr(ast.NewIdent("_"))
	if !isBlank(s.Key) {
		v = s.Key
	}
	body := rewriteList(s.Body.List)
	if !isBlank(s.Key) {
		body = append([]ast.Stmt{&ast.AssignStmt{Lhs: []ast.Expr{ast.NewIdent("_")}, Tok: token.ASSIGN, Rhs: []ast.Expr{s.Key}}}, body...)
	}
	loop := &ast.ForStmt{
		Init: &ast.AssignStmt{Lhs: []ast.Expr{v, ok}, Tok: token.DEFINE, Rhs: []ast.Expr{call("RecvOK", ch)}},
		Cond: ok,
		Post: &ast.AssignStmt{Lhs: []ast.Expr{v, ok}, Tok: token.ASSIGN, Rhs: []ast.Expr{call("RecvOK", ch)}},
		Body: &ast.BlockStmt{List: body},
	}
	if wrap != nil {
		return &ast.BlockStmt{List: append(wrap, loop)}
	}
	return loop
}

// go f(a, b) ==> { _f := f; _a1 := a; _a2 := b; simrt.Go(func() { _f(_a1, _a2) }) }
// (function value and arguments are evaluated in the parent, as the language requires).
func rewriteGo(s *ast.GoStmt) ast.Stmt {
	counts["go"]++
	c := s.Call
	var pro []ast.Stmt
	bind := func(e ast.Expr, p string) ast.Expr {
		e = rewriteExpr(e)
		switch e.(type) {
		case *ast.BasicLit:
			return e
		}
		if id, ok := e.(*ast.Ident); ok && (id.Name == "nil" || id.Name == "true" || id.Name == "false") {
			return e
		}
		t := tmp(p)
		pro = append(pro, &ast.AssignStmt{Lhs: []ast.Expr{t}, Tok: token.DEFINE, Rhs: []ast.Expr{e}})
		return t
	}
	if id, ok := c.Fun.(*ast.Ident); ok {
		if _, isBuiltin := info.Uses[id].(*types.Builtin); isBuiltin {
			die(s.Pos(), "go <builtin>")
		}
	}
	if tv, ok := info.Types[c.Fun]; ok && tv.IsType() {
		die(s.Pos(), "go <conversion>")
	}
	var fn ast.Expr
	if _, isLit := c.Fun.(*ast.FuncLit); isLit || isFuncName(c.Fun) {
		fn = rewriteExpr(c.Fun) // literals and declared functions need no temporary
		if _, isLit := fn.(*ast.FuncLit); isLit {
			fn = bindTo(&pro, fn, "f")
		}
	} else {
		fn = bind(c.Fun, "f")
	}
	args := make([]ast.Expr, len(c.Args))
	for i, a := range c.Args {
		if tv, ok := info.Types[a]; ok {
			if _, isTuple := tv.Type.(*types.Tuple); isTuple {
				die(s.Pos(), "go call with a multi-value argument")
			}
			if b, ok := tv.Type.(*types.Basic); ok && b.Info()&types.IsUntyped != 0 && b.Kind() != types.UntypedNil {
				// keep untyped constants in place so that they still convert to the parameter type
				args[i] = rewriteExpr(a)
				continue
			}
		}
		args[i] = bind(a, "a")
	}
	inner := &ast.CallExpr{Fun: fn, Args: args}
	if c.Ellipsis != token.NoPos {
		inner.Ellipsis = 1
	}
	lit := &ast.FuncLit{Type: &ast.FuncType{Params: &ast.FieldList{}}, Body: &ast.BlockStmt{List: []ast.Stmt{&ast.ExprStmt{X: inner}}}}
	pro = append(pro, &ast.ExprStmt{X: call("Go", lit)})
	return &ast.BlockStmt{List: pro}
}

func bindTo(pro *[]ast.Stmt, e ast.Expr, p string) ast.Expr {
	t := tmp(p)
	*pro = append(*pro, &ast.AssignStmt{Lhs: []ast.Expr{t}, Tok: token.DEFINE, Rhs: []ast.Expr{e}})
	return t
}

func isFuncName(e ast.Expr) bool {
	switch x := e.(type) {
	case *ast.Ident:
		_, ok := info.Uses[x].(*types.Func)
		return ok
	case *ast.SelectorExpr:
		if _, _, ok := pkgSel(x); ok {
			_, isFn := info.Uses[x.Sel].(*types.Func)
			return isFn
		}
	}
	return false
}

// select { case x := <-c: A; case d <- v: B; default: C }  ==>
//
//	switch _sel := simrt.Select(hasDefault, simrt.CaseRecv(c), simrt.CaseSend(d, v)); _sel.I {
//	case 0: x := simrt.SelVal(c, _sel); A
//	case 1: B
//	default: C }
//
// so that break, continue and labels keep their meaning.
func rewriteSelect(s *ast.SelectStmt) ast.Stmt {
	counts["select"]++
	selv := tmp("sel")
	args := []ast.Expr{ast.NewIdent("false")}
	var clauses []ast.Stmt
	var wrap []ast.Stmt
	idx := 0
	for _, cc := range s.Body.List {
		c := cc.(*ast.CommClause)
		if c.Comm == nil {
			args[0] = ast.NewIdent("true")
			clauses = append(clauses, &ast.CaseClause{List: nil, Body: rewriteList(c.Body)})
			continue
		}
		var pro []ast.Stmt
		switch comm := c.Comm.(type) {
		case *ast.SendStmt:
			args = append(args, call("CaseSend", rewriteExpr(comm.Chan), rewriteExpr(comm.Value)))
		case *ast.ExprStmt:
			u := unparen(comm.X).(*ast.UnaryExpr)
			args = append(args, call("CaseRecv", rewriteExpr(u.X)))
		case *ast.AssignStmt:
			u := unparen(comm.Rhs[0]).(*ast.UnaryExpr)
			ch := u.X
			if !plainOperand(ch) {
				if labeled[s] {
					die(comm.Pos(), "labeled select receiving with assignment from a non-plain channel expression")
				}
				t := tmp("c")
				wrap = append(wrap, &ast.AssignStmt{Lhs: []ast.Expr{t}, Tok: token.DEFINE, Rhs: []ast.Expr{rewriteExpr(ch)}})
				ch = t
			}
			args = append(args, call("CaseRecv", ch))
			fn := "SelVal"
			if len(comm.Lhs) == 2 {
				fn = "SelVal2"
			}
			lhs := make([]ast.Expr, len(comm.Lhs))
			allBlank := true
			for i := range comm.Lhs {
				lhs[i] = rewriteExpr(comm.Lhs[i])
				if !isBlank(lhs[i]) {
					allBlank = false
				}
			}
			tok := comm.Tok
			if allBlank {
				tok = token.ASSIGN
			}
			pro = append(pro, &ast.AssignStmt{Lhs: lhs, Tok: tok, Rhs: []ast.Expr{call(fn, ch, selv)}})
			if tok == token.DEFINE {
				// avoid "declared and not used" when the body ignores the variable
				for _, l := range lhs {
					if id, ok := l.(*ast.Ident); ok && id.Name != "_" {
						pro = append(pro, &ast.AssignStmt{Lhs: []ast.Expr{ast.NewIdent("_")}, Tok: token.ASSIGN, Rhs: []ast.Expr{id}})
					}
				}
			}
		}
		clauses = append(clauses, &ast.CaseClause{
			List: []ast.Expr{&ast.BasicLit{Kind: token.INT, Value: strconv.Itoa(idx)}},
			Body: append(pro, rewriteList(c.Body)...),
		})
		idx++
	}
	used = true
	if id, ok := args[0].(*ast.Ident); ok && id.Name == "false" {
		// A select whose clauses all end in return (or an empty select) is a
		// terminating statement; a switch is one only with a default clause.
		clauses = append(clauses, &ast.CaseClause{List: nil, Body: []ast.Stmt{
			&ast.ExprStmt{X: &ast.CallExpr{Fun: ast.NewIdent("panic"), Args: []ast.Expr{&ast.BasicLit{Kind: token.STRING, Value: `"simrt: select returned no case"`}}}},
		}})
	}
	sw := &ast.SwitchStmt{
		Init: &ast.AssignStmt{Lhs: []ast.Expr{selv}, Tok: token.DEFINE, Rhs: []ast.Expr{call("Select", args...)}},
		Tag:  &ast.SelectorExpr{X: selv, Sel: ast.NewIdent("I")},
		Body: &ast.BlockStmt{List: clauses},
	}
	if wrap != nil {
		return &ast.BlockStmt{List: append(wrap, sw)}
	}
	return sw
}

func addImport(f *ast.File) {
	spec := &ast.ImportSpec{Name: ast.NewIdent("simrt"), Path: &ast.BasicLit{Kind: token.STRING, Value: `"verif/simrt"`}}
	for _, d := range f.Decls {
		if g, ok := d.(*ast.GenDecl); ok && g.Tok == token.IMPORT {
			g.Specs = append(g.Specs, spec)
			if !g.Lparen.IsValid() {
				g.Lparen = g.Pos()
				g.Rparen = g.End()
			}
			return
		}
	}
	f.Decls = append([]ast.Decl{&ast.GenDecl{Tok: token.IMPORT, Specs: []ast.Spec{spec}}}, f.Decls...)
}

func dropUnusedImports(f *ast.File, paths ...string) {
	for _, p := range paths {
		name := filepath.Base(p)
		refd := false
		ast.Inspect(f, func(n ast.Node) bool {
			if s, ok := n.(*ast.SelectorExpr); ok {
				if id, ok := s.X.(*ast.Ident); ok && id.Name == name {
					if _, isPkg := info.Uses[id].(*types.PkgName); isPkg {
						refd = true
					}
				}
			}
			return !refd
		})
		if refd {
			continue
		}
		for _, d := range f.Decls {
			g, ok := d.(*ast.GenDecl)
			if !ok || g.Tok != token.IMPORT {
				continue
			}
			for i, sp := range g.Specs {
				is := sp.(*ast.ImportSpec)
				if is.Path.Value == strconv.Quote(p) && is.Name == nil {
					g.Specs = append(g.Specs[:i], g.Specs[i+1:]...)
					break
				}
			}
		}
	}
}

// moduleGoVersion returns (major, minor) of the `go` directive of the go.mod that governs dir.
func moduleGoVersion(dir string) (int, int) {
	d, _ := filepath.Abs(dir)
	for {
		b, err := os.ReadFile(filepath.Join(d, "go.mod"))
		if err == nil {
			for _, line := range strings.Split(string(b), "\n") {
				f := strings.Fields(line)
				if len(f) >= 2 && f[0] == "go" {
					var maj, min int
					fmt.Sscanf(f[1], "%d.%d", &maj, &min)
					return maj, min
				}
			}
			return 1, 16
		}
		p := filepath.Dir(d)
		if p == d {
			return 1, 16
		}
		d = p
	}
}

// withLanguageVersion makes sure a rewritten file may use generics (the calls into simrt are
// generic): if the module declares go < 1.18 the file gets a `//go:build go1.18` constraint, which
// raises the language version for this file only and keeps the pre-1.22 loop-variable semantics of
// the module; an existing //go:build line is combined with it. Modules that already declare
// go >= 1.18 are left alone (adding the constraint there would LOWER the file's language version).
func withLanguageVersion(src []byte, dir string) []byte {
	maj, min := moduleGoVersion(dir)
	if maj > 1 || min >= 18 {
		return src
	}
	lines := strings.Split(string(src), "\n")
	for i, l := range lines {
		t := strings.TrimSpace(l)
		if strings.HasPrefix(t, "//go:build ") {
			lines[i] = "//go:build (" + strings.TrimSpace(strings.TrimPrefix(t, "//go:build ")) + ") && go1.18"
			out := lines[:0:0]
			for _, x := range lines {
				if strings.HasPrefix(strings.TrimSpace(x), "// +build ") {
					continue // the old-style line would contradict the combined constraint
				}
				out = append(out, x)
			}
			return []byte(strings.Join(out, "\n"))
		}
		if strings.HasPrefix(t, "package ") {
			break
		}
	}
	return append([]byte("//go:build go1.18\n\n"), src...)
}

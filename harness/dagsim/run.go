package main

import (
	"bytes"
	"context"
	"errors"
	"fmt"
	"io"
	"log"
	"strings"
	"time"

	"github.com/DavidGamba/go-getoptions"
	"github.com/DavidGamba/go-getoptions/dag"
	"verif/simrt"
)

type Violation struct {
	Prop   string `json:"property"`
	Oracle string `json:"oracle"`
	Msg    string `json:"message"`
	Seq    uint64 `json:"seq"`
}

type entryEv struct {
	graph, task, attempt int
	phase                int
	seq, spawnSeq        uint64
	gname                string
	vc                   simrt.VC
}

type Result struct {
	Viol       []Violation
	Verdict    simrt.Verdict
	PanicMsg   string
	Hash       uint64
	Seq        uint64
	Steps      int
	SimTime    time.Duration
	Decisions  []string
	Faults     map[string]int
	Probes     map[string]int
	HistHash   uint64
	MaxRunning int
	Trace      []simrt.Event
	Unfinished []string
	RunErrs    []string
	Stats      simrt.Stats
	Nontrivial bool
}

type runState struct {
	sc        *Scenario
	m         *Model   // declared graph of g0
	ms        []*Model // declared graph per graph (construction calls can be per graph)
	res       *Result
	ng        int
	graphs    []*dag.Graph
	phase     int    // 1, or k during/after the k-th Run of a scenario with extra phases
	carried   []bool // phase 2: tasks that completed successfully in the first Run
	curMaxPar int
	unit      time.Duration
	sents     []error
	errsVal   []*dag.Errors // per task: the *Errors value returned by "errs0"/"errs1" attempts

	entries      []entryEv
	attempts     [][]int
	finalRes     [][]string // result of the last finished attempt ("" = none finished)
	exitVC       [][]simrt.VC
	exitSeq      [][]uint64 // sequence number of the latest exit per task
	inFn         [][]bool
	executing    []int
	lastExitVC   []simrt.VC // per graph: clock of the latest task exit (serial HB)
	taskActive   [][2]int   // per *Task object (id, primary/alternate), across graphs
	runErr       []error
	returned     []bool
	retSeq       []uint64
	snapAtt      [][]int    // per graph: attempts at the moment Run returned
	snapFinal    [][]string // ... last finished results
	snapInFn     [][]bool   // ... functions still executing
	snapNEnt     []int      // ... number of entries so far
	obsSeq       []uint64   // per graph: first fired foreign receive on the goroutine that called Run
	dfs          [][]string
	dfsErr       []error
	curWriter    []*simWriter // the sink currently configured per graph
	lostPayload  string       // what the single rejected Write (Writer.ErrOnly) carried
	midHi, midLo []int        // largest / smallest limit a task set through SetMaxParallel while its graph was running (0: none)
	dfsSkipped   []bool       // no sequential DepthFirstSort before the run: the concurrent ones come first
	innerRunning bool         // the inner graph's Run (Scenario.Inner) has been called and has not returned
	again        bool         // the Run being judged is a repetition on an unchanged graph
	lockProbe    string       // the Task the post-run lock probe is waiting for ("" = not probing)
	cancelSeq    uint64       // first cancel() issued
	cancelSlp    []int        // per graph: sleeps the Run goroutine had started when cancel() was issued
	retSlp       []int        // ... when Run returned
	cancelPre    bool         // cancel() was issued before any Run was called
	failSeq      uint64       // first final failure
	writes       []bytes.Buffer
	inWrite      []bool
	nWrites      int
	failedWrites int
	hist         uint64
	logLines     int
}

func (r *runState) fail(prop, oracle string, seq uint64, f string, a ...interface{}) {
	r.res.Viol = append(r.res.Viol, Violation{prop, oracle, fmt.Sprintf(f, a...), seq})
}

func (r *runState) histAdd(s string) {
	h := r.hist
	for i := 0; i < len(s); i++ {
		h ^= uint64(s[i])
		h *= 1099511628211
	}
	h ^= 0xff
	h *= 1099511628211
	r.hist = h
}

func (r *runState) limit() int {
	if r.sc.Serial {
		return 1
	}
	if r.curMaxPar > 0 {
		return r.curMaxPar
	}
	return 1 << 30
}

// A task may call SetMaxParallel while its graph runs. Whether the Run in progress keeps the limit it
// started with or follows the new one is not said anywhere, so from then on the bound on executing
// functions is the largest limit set so far (limitHi) and work conservation is only demanded below
// the smallest one (limitLo).
func (r *runState) limitHi(g int) int {
	if l := r.limit(); r.midHi[g] > l {
		return r.midHi[g]
	} else {
		return l
	}
}

func (r *runState) limitLo(g int) int {
	if l := r.limit(); r.midLo[g] > 0 && r.midLo[g] < l {
		return r.midLo[g]
	} else {
		return l
	}
}

func isSkip(res string) bool { return strings.HasPrefix(res, "skip") }

// skipIs is an error of the task's own type that declares itself equivalent to dag.ErrorSkipParents.
type skipIs struct{ why string }

func (e skipIs) Error() string        { return "nothing to do: " + e.why }
func (e skipIs) Is(target error) bool { return target == dag.ErrorSkipParents }
func isErr(res string) bool {
	return res == "err" || res == "errs0" || res == "errs1" || res == "errctx" || res == "errsk"
}

// ctxLikeErr is what a task returns when its own, private timeout expired: it wraps
// context.DeadlineExceeded and is identified by the task's sentinel.
type ctxLikeErr struct{ sentinel error }

func (e ctxLikeErr) Error() string        { return "task-local timeout: " + context.DeadlineExceeded.Error() }
func (e ctxLikeErr) Unwrap() error        { return context.DeadlineExceeded }
func (e ctxLikeErr) Is(target error) bool { return target == e.sentinel }

// attemptSpec is the behaviour of attempt k of task i when it runs in graph g.
func (r *runState) attemptSpec(g, i, k int) AttemptSpec {
	as := r.sc.Tasks[i].Attempts
	if g == 1 && len(r.sc.Tasks[i].G1) > 0 {
		as = r.sc.Tasks[i].G1
	}
	if k < len(as) {
		return as[k]
	}
	return as[len(as)-1]
}

// checkable reports whether the ordering/reporting oracles apply: the declared graph is free of
// definition errors and acyclic (DESIGN §4.1).
func (r *runState) checkable() bool {
	for _, m := range r.ms {
		if m.DefErrors != 0 || m.Cyclic {
			return false
		}
	}
	return true
}

type simWriter struct {
	r *runState
	g int
	// since: the Run (phase) before which this sink was installed with SetOutputBuffer; until: the
	// last phase it is the configured sink of (0 = still configured)
	since, until int
}

func (w *simWriter) Write(p []byte) (int, error) {
	r := w.r
	simrt.Lock()
	seq := simrt.Note("write-begin", fmt.Sprintf("g%d %d bytes", w.g, len(p)))
	if r.inWrite[w.g] {
		r.fail("C15", "O15d", seq, "two Write calls on the output writer of graph g%d overlap", w.g)
	}
	r.inWrite[w.g] = true
	r.nWrites++
	if w.until != 0 && r.phase > w.until {
		r.fail("C15", "O15d", seq, "g%d: output written during Run #%d went to the writer that SetOutputBuffer had replaced before that Run: %.60q", w.g, r.phase, p)
	}
	total := len(p)
	if r.sc.Writer.ErrFrom > 0 && r.nWrites >= r.sc.Writer.ErrFrom {
		// the sink is gone (closed pipe): nothing is consumed, now and for ever
		r.failedWrites++
		r.res.Faults["writer_error"]++
		r.inWrite[w.g] = false
		if r.failedWrites == spinLimit {
			r.fail("C16", "O16a", seq, "g%d: the output writer has rejected %d consecutive writes and is still being called: a task goroutine spins on the failing writer, its vertex never completes and Run never returns", w.g, spinLimit)
			simrt.Unlock()
			panic(spinAbort{})
		}
		simrt.Unlock()
		return 0, errors.New("write on closed pipe (injected)")
	}
	if r.sc.Writer.ErrOnly > 0 && r.nWrites == r.sc.Writer.ErrOnly {
		// a hiccup of the sink: this one Write is rejected, nothing of it is consumed, the next ones work
		r.res.Faults["writer_error_once"]++
		r.lostPayload += string(p)
		r.inWrite[w.g] = false
		simrt.Unlock()
		return 0, errors.New("temporary failure of the sink (injected)")
	}
	if r.sc.Writer.Yield {
		r.res.Faults["writer_yield"]++
		simrt.Unlock()
		simrt.Yield()
		simrt.Lock()
		if len(p) > 1 { // a writer that consumes its input in two steps
			r.writes[w.g].Write(p[:len(p)/2])
			p = p[len(p)/2:]
			simrt.Unlock()
			simrt.Yield()
			simrt.Lock()
		}
	}
	r.writes[w.g].Write(p)
	r.inWrite[w.g] = false
	simrt.Note("write-end", "")
	simrt.Unlock()
	return total, nil
}

// lockedWriter is a sink that is safe for concurrent use the usual way: it embeds a mutex, Write
// takes it, and - the mutex being embedded - Lock and Unlock are part of its method set.
type lockedWriter struct {
	*simWriter
	mu simrt.Mutex
}

func (w *lockedWriter) Lock()   { w.mu.Lock() }
func (w *lockedWriter) Unlock() { w.mu.Unlock() }
func (w *lockedWriter) Write(p []byte) (int, error) {
	w.mu.Lock()
	defer w.mu.Unlock()
	return w.simWriter.Write(p)
}

// noCopyWriter carries the "noCopy" vet marker: Lock and Unlock exist and do nothing.
type noCopyWriter struct{ *simWriter }

func (noCopyWriter) Lock()   {}
func (noCopyWriter) Unlock() {}

// deadlineCtx behaves like a context.WithDeadline/WithTimeout context whose expiry instant is
// decided by the scenario: Done() is the embedded cancel context's channel (so the standard library
// still recognises it as one of its own and starts no watcher goroutine), Err() reports
// DeadlineExceeded once it is closed.
type deadlineCtx struct {
	context.Context
	at time.Time
}

func (d deadlineCtx) Err() error {
	if d.Context.Err() != nil {
		return context.DeadlineExceeded
	}
	return nil
}

// Deadline: the instant at which the scenario will end the context when that is known in advance (a
// timed cancellation), the past for a context that is already over, otherwise far away.
func (d deadlineCtx) Deadline() (time.Time, bool) { return d.at, true }

// spinLimit: this many consecutive rejected writes mean somebody retries a persistently failing
// write in a loop (each retry is a few scheduler steps; the run would otherwise hit the step cap).
const spinLimit = 5000

type spinAbort struct{}

func (spinAbort) String() string { return "spin-abort: the run is stopped after the spin was reported" }

type logSink struct{ r *runState }

func (l logSink) Write(p []byte) (int, error) {
	simrt.Lock()
	defer simrt.Unlock()
	l.r.logLines++
	if l.r.sc.LogErr {
		l.r.res.Faults["log_writer_error"]++
		return 0, errors.New("log sink failure (injected)")
	}
	return len(p), nil
}

func chunkText(g, task, attempt, c int) string {
	return fmt.Sprintf("<g%d t%02d #%d c%d>", g, task, attempt, c)
}

var bigPad = strings.Repeat("0123456789abcdef", 70*1024/16)

// attemptOutput is what attempt k of a task writes, chunk by chunk.
func attemptOutput(a AttemptSpec, g, task, attempt int) []string {
	var out []string
	for c := 0; c < a.Chunks; c++ {
		s := chunkText(g, task, attempt, c)
		if c == 0 && a.Big {
			s += bigPad + "</big>"
		}
		out = append(out, s)
	}
	return out
}

// Execute runs one scenario under the given chooser and evaluates every oracle.
func Execute(sc *Scenario, ch simrt.Chooser, keepTrace bool) *Result {
	res := &Result{Faults: map[string]int{}, Probes: map[string]int{}}
	r := &runState{sc: sc, m: sc.Model(), res: res, ng: sc.Graphs, hist: 14695981039346656037, phase: 1, curMaxPar: sc.MaxPar}
	r.carried = make([]bool, sc.N)
	if r.ng < 1 {
		r.ng = 1
	}
	for g := 0; g < r.ng; g++ {
		r.ms = append(r.ms, sc.ModelFor(g))
	}
	ng, n := r.ng, sc.N
	if simrt.RealRuntime {
		// real clock: a poll tick of 200µs keeps task durations (0..400 ticks) between 0 and 80 ms
		sc = cloneScenario(sc)
		sc.TickNS = 200_000
		r.sc = sc
	}
	r.unit = time.Duration(sc.TickNS)
	if r.unit <= 0 {
		r.unit = 1
	}
	mk := func() [][]int { return make([][]int, ng) }
	r.attempts = mk()
	r.finalRes = make([][]string, ng)
	r.exitVC = make([][]simrt.VC, ng)
	r.exitSeq = make([][]uint64, ng)
	r.inFn = make([][]bool, ng)
	for g := 0; g < ng; g++ {
		r.attempts[g] = make([]int, n)
		r.finalRes[g] = make([]string, n)
		r.exitVC[g] = make([]simrt.VC, n)
		r.exitSeq[g] = make([]uint64, n)
		r.inFn[g] = make([]bool, n)
	}
	r.executing = make([]int, ng)
	r.lastExitVC = make([]simrt.VC, ng)
	r.taskActive = make([][2]int, n)
	r.runErr = make([]error, ng)
	r.returned = make([]bool, ng)
	r.retSeq = make([]uint64, ng)
	r.obsSeq = make([]uint64, ng)
	r.cancelSlp, r.retSlp = make([]int, ng), make([]int, ng)
	r.snapAtt, r.snapFinal, r.snapInFn, r.snapNEnt = make([][]int, ng), make([][]string, ng), make([][]bool, ng), make([]int, ng)
	r.dfs = make([][]string, ng)
	r.dfsErr = make([]error, ng)
	r.dfsSkipped = make([]bool, ng)
	r.midHi, r.midLo = make([]int, ng), make([]int, ng)
	r.curWriter = make([]*simWriter, ng)
	r.writes = make([]bytes.Buffer, ng)
	r.inWrite = make([]bool, ng)
	for i := 0; i < n; i++ {
		r.sents = append(r.sents, fmt.Errorf("E_t%02d", i))
		ev := &dag.Errors{Msg: fmt.Sprintf("nested graph of t%02d", i)}
		r.errsVal = append(r.errsVal, ev)
	}
	for i := range sc.Tasks {
		for _, as := range [][]AttemptSpec{sc.Tasks[i].Attempts, sc.Tasks[i].G1} {
			for _, a := range as {
				if a.Res == "errs1" && len(r.errsVal[i].Errors) == 0 {
					r.errsVal[i].Errors = append(r.errsVal[i].Errors, fmt.Errorf("inner failure of t%02d", i))
				}
			}
		}
	}
	if sc.Policy.Kind == "pct" {
		res.Faults["starve_goroutine"]++
	}

	cfg := simrt.Config{
		Chooser:      ch,
		ClockAdvance: sc.Policy.ClockP > 0,
		YieldOnMake:  true,
		YieldOnMap:   true,
		MapBase:      sc.MapBase,
		KeepTrace:    keepTrace,
		OnSettled:    r.onSettled,
		OnQuiescent: func() {
			for g := 0; g < r.ng; g++ {
				r.res.Probes["quiescent_points"]++
				r.onSettled(name2run(g))
			}
		},
		OnForeignFire: func(seq uint64, polled bool) {
			if !polled {
				// the end of a blocking wait on ctx.Done() may be a mere wake-up; only a
				// non-blocking poll that fires is an unambiguous observation (DESIGN §14.5)
				res.Probes["cancel_ended_a_blocking_wait"]++
				return
			}
			name := simrt.CurName()
			for g := 0; g < ng; g++ {
				if name == fmt.Sprintf("run:g%d", g) && r.obsSeq[g] == 0 {
					r.obsSeq[g] = seq
					r.histAdd(fmt.Sprintf("observe g%d", g))
					res.Probes["cancel_observed"]++
					if r.executing[g] > 0 {
						res.Probes["cancel_observed_with_tasks_in_flight"]++
					}
				}
			}
		},
	}
	oldLogger := dag.Logger
	sim := simrt.Run(cfg, func() { r.main() })
	dag.Logger = oldLogger

	res.Verdict = sim.Verdict()
	res.PanicMsg = sim.PanicMsg()
	res.Hash, res.Seq, res.Steps, res.SimTime = sim.Hash(), sim.Seq(), sim.Steps(), sim.Now()
	res.Stats = sim.Stats
	res.Trace = sim.Trace
	res.Unfinished = sim.Unfinished()
	res.HistHash = r.hist
	if sim.Stats.VoluntaryClock > 0 {
		res.Faults["clock_advance_while_runnable"] += sim.Stats.VoluntaryClock
	}
	res.Probes["map_order_decisions"] += sim.Stats.MapDecisions
	res.Probes["map_order_nonsorted"] += sim.Stats.MapNonSorted
	res.Probes["select_multi_ready"] += sim.Stats.SelectMulti
	res.Probes["mutex_contended"] += sim.Stats.MutexContended
	res.Probes["chan_send_blocked"] += sim.Stats.ChanSendBlocked
	res.Probes["settled_points"] += sim.Stats.Settled
	r.posthoc()
	for g := 0; g < ng; g++ {
		if r.runErr[g] != nil {
			res.RunErrs = append(res.RunErrs, r.runErr[g].Error())
		} else {
			res.RunErrs = append(res.RunErrs, "")
		}
	}
	res.Nontrivial = res.MaxRunning >= 2 || r.failSeq != 0 || r.cancelSeq != 0 || len(res.Faults) > 0
	return res
}

func (r *runState) doCancel(cancel context.CancelFunc, kind string) {
	simrt.Lock()
	defer simrt.Unlock()
	if r.cancelSeq == 0 {
		r.cancelSeq = simrt.Note("cancel", kind)
		r.histAdd("cancel " + kind)
		for g := 0; g < r.ng; g++ {
			r.cancelSlp[g] = simrt.SleepCount(fmt.Sprintf("run:g%d", g))
		}
	}
	r.res.Faults[kind]++
	cancel()
}

func (r *runState) taskFn(i, alt int, cancel context.CancelFunc) getoptions.CommandFn {
	sc := r.sc
	return func(ctx context.Context, opt *getoptions.GetOpt, args []string) error {
		g := 0
		if len(args) > 0 && len(args[0]) == 2 && args[0][0] == 'g' {
			g = int(args[0][1] - '0')
		}
		m := r.ms[g]
		simrt.Lock()
		vc := simrt.Clock()
		k := r.attempts[g][i]
		r.attempts[g][i]++
		seq := simrt.Note("entry", fmt.Sprintf("g%d t%02d #%d", g, i, k))
		r.histAdd(fmt.Sprintf("entry g%d t%02d #%d", g, i, k))
		r.entries = append(r.entries, entryEv{g, i, k, r.phase, seq, simrt.CurSpawnSeq(), simrt.CurName(), vc})
		tagK := k + 100*(r.phase-1) // output tags of the second Run are distinct
		a := r.attemptSpec(g, i, k)
		R := m.Retries[i]

		// ---- online oracles ----
		// O14h: nobody cancelled anything and nothing has failed, yet the task is handed a context that is
		// already done (a context-aware task would give up at once)
		if cerr := ctx.Err(); cerr != nil && r.cancelSeq == 0 && r.failSeq == 0 && !sc.Cancel.Deadline {
			r.fail("C14", "O14h", seq, "g%d t%02d attempt %d was handed a context that is already done (%v) although the caller's context was never cancelled and no task has failed", g, i, k+1, cerr)
		}
		if r.inFn[g][i] {
			r.fail("C13", "O13c", seq, "g%d t%02d: attempt %d entered while attempt %d is still running", g, i, k+1, k)
		}
		if r.checkable() {
			if k > R {
				r.fail("C13", "O13c", seq, "g%d t%02d entered %d times with %d retries declared", g, i, k+1, R)
			}
			if k > 0 && !r.inFn[g][i] {
				if r.finalRes[g][i] == "ok" {
					r.fail("C13", "O13c", seq, "g%d t%02d entered again after an attempt returned nil", g, i)
				}
				if !simrt.Leq(r.exitVC[g][i], vc) {
					r.fail("C13", "O13c", seq, "g%d t%02d: attempt %d does not happen-after attempt %d", g, i, k+1, k)
				}
			}
			// O14d: a task that became ready only after cancel() had been called is never started
			if k == 0 && r.cancelSeq != 0 && len(m.Deps[i]) > 0 {
				var last uint64
				lastD := -1
				for _, d := range m.Deps[i] {
					if r.exitSeq[g][d] > last {
						last, lastD = r.exitSeq[g][d], d
					}
				}
				if lastD >= 0 && r.cancelSeq < last {
					r.fail("C14", "O14d", seq, "g%d t%02d was started although it became ready only after the context had been cancelled (cancel() at seq %d, its last dependency t%02d returned at seq %d)", g, i, r.cancelSeq, lastD, last)
				}
			}
			for _, d := range m.Deps[i] {
				if r.finalRes[g][d] != "ok" || r.inFn[g][d] {
					r.fail("C13", "O13a", seq, "g%d t%02d entered but its dependency t%02d has not returned nil (last result %q, running=%v)", g, i, d, r.finalRes[g][d], r.inFn[g][d])
				} else if !simrt.Leq(r.exitVC[g][d], vc) {
					r.fail("C13", "O13b", seq, "g%d: no happens-before from the return of t%02d to the entry of its dependent t%02d", g, d, i)
				}
			}
		}
		r.inFn[g][i] = true
		r.executing[g]++
		if r.executing[g] > r.res.MaxRunning {
			r.res.MaxRunning = r.executing[g]
		}
		if r.executing[g] > r.limitHi(g) {
			what := fmt.Sprintf("SetMaxParallel(%d)", r.limitHi(g))
			if sc.Serial {
				what = "serial mode"
			}
			r.fail("C15", "O15a", seq, "g%d: %d task functions executing at once under %s", g, r.executing[g], what)
		}
		if k > 0 && r.executing[g] == r.limit() {
			r.res.Probes["retry_at_parallelism_limit"]++
		}
		if sc.Serial && r.lastExitVC[g] != nil && !simrt.Leq(r.lastExitVC[g], vc) {
			r.fail("C15", "O15b", seq, "g%d serial: entry of t%02d does not happen-after the previous task's return", g, i)
		}
		r.taskActive[i][alt]++
		if r.taskActive[i][alt] > 1 {
			r.fail("C15", "O15c", seq, "the function of shared Task object t%02d%s is executing %d times at once (graphs run concurrently)", i, []string{"", "'"}[alt], r.taskActive[i][alt])
		}
		if alt == 1 {
			r.res.Probes["alternate_task_object_executed"]++
		}
		if r.taskActive[i][alt] == 1 && r.ng >= 2 {
			others := 0
			for og := 0; og < r.ng; og++ {
				if og != g && r.attempts[og][i] > 0 {
					others++
				}
			}
			if others > 0 {
				r.res.Probes["shared_task_ran_in_both_graphs"]++
			}
			if others > 1 {
				r.res.Probes["shared_task_ran_in_three_graphs"]++
			}
		}

		simrt.Unlock()

		// ---- behaviour ----
		if a.Cancel == "entry" {
			r.doCancel(cancel, "cancel_in_task")
		}
		if a.SetMaxPar > 0 && sc.Phase2 == nil && !sc.Again && !sc.Serial && sc.MaxPar > 0 {
			simrt.Lock()
			r.res.Faults["set_max_parallel_during_run"]++
			if a.SetMaxPar > r.midHi[g] {
				r.midHi[g] = a.SetMaxPar
			}
			if r.midLo[g] == 0 || a.SetMaxPar < r.midLo[g] {
				r.midLo[g] = a.SetMaxPar
			}
			simrt.Unlock()
			r.graphs[g].SetMaxParallel(a.SetMaxPar)
		}
		if a.DFS {
			r.probeDFS(g, fmt.Sprintf("asked by t%02d while it runs", i))
		}
		if sc.Buffer {
			for c, text := range attemptOutput(a, g, i, tagK) {
				w := dag.Stdout(ctx)
				if c%2 == 1 {
					w = dag.Stderr(ctx)
				}
				// plain Write: io.WriteString would pick a promoted WriteString method and bypass
				// whatever the writer handed out by dag does in Write
				if c%3 == 2 {
					fmt.Fprint(w, text)
				} else {
					w.Write([]byte(text))
				}
				if c+1 < a.Chunks {
					simrt.Yield()
				}
			}
			if a.Big && a.Chunks > 0 {
				simrt.Lock()
				r.res.Faults["big_output"]++
				simrt.Unlock()
			}
		}
		if in := sc.Inner; in != nil && in.Host == i && k == 0 && g == 0 {
			r.runInner(ctx, in)
		}
		if a.Dur >= 40 {
			simrt.Lock()
			r.res.Faults["stall_task"]++
			simrt.Unlock()
		}
		simrt.EnvSleep(time.Duration(a.Dur) * r.unit)
		if a.Cancel == "exit" {
			r.doCancel(cancel, "cancel_in_task")
		}

		// ---- exit ----
		simrt.Lock()
		defer simrt.Unlock()
		r.finalRes[g][i] = a.Res
		r.exitVC[g][i] = simrt.Clock()
		r.lastExitVC[g] = r.exitVC[g][i]
		r.inFn[g][i] = false
		r.executing[g]--
		r.taskActive[i][alt]--
		xseq := simrt.Note("exit", fmt.Sprintf("g%d t%02d #%d %s", g, i, k, a.Res))
		r.exitSeq[g][i] = xseq
		r.histAdd(fmt.Sprintf("exit g%d t%02d #%d %s", g, i, k, a.Res))
		switch a.Res {
		case "errs0", "errs1":
			// the task's error is itself a *dag.Errors value (a task that ran a nested graph)
			if k >= R {
				r.res.Faults["task_error_is_errors_value"]++
				if r.failSeq == 0 {
					r.failSeq = xseq
				}
			}
			return r.errsVal[i]
		case "errsk": // the task forwards an entry of a nested graph's report: its own error wraps dag.ErrorTaskSkipped
			if k >= R {
				r.res.Faults["task_error_wraps_task_skipped"]++
				if r.failSeq == 0 {
					r.failSeq = xseq
				}
			}
			return fmt.Errorf("attempt %d of t%02d: %w (forwarded: %w)", k+1, i, r.sents[i], dag.ErrorTaskSkipped)
		case "errctx":
			if k >= R {
				r.res.Faults["task_error_wraps_context_error"]++
				if r.failSeq == 0 {
					r.failSeq = xseq
				}
			}
			return fmt.Errorf("attempt %d of t%02d: %w", k+1, i, ctxLikeErr{r.sents[i]})
		case "err":
			if k >= R {
				r.res.Faults["task_error"]++
				if r.failSeq == 0 {
					r.failSeq = xseq
				}
				if r.executing[g] > 0 {
					r.res.Probes["failure_while_others_in_flight"]++
				}
			} else {
				r.res.Faults["task_error_transient"]++
			}
			return fmt.Errorf("attempt %d of t%02d: %w", k+1, i, r.sents[i])
		case "skip":
			r.res.Faults["skip_parents"]++
			if r.executing[g] > 0 {
				r.res.Probes["skip_while_others_in_flight"]++
			}
			return dag.ErrorSkipParents
		case "skipw":
			r.res.Faults["skip_parents_wrapped"]++
			return fmt.Errorf("condition not met: %w", dag.ErrorSkipParents)
		case "skipj": // errors.Join: the skip is one of several errors, reachable through Unwrap() []error only
			r.res.Faults["skip_parents_joined"]++
			return errors.Join(errors.New("cache is warm"), dag.ErrorSkipParents)
		case "skipm": // several %w verbs
			r.res.Faults["skip_parents_joined"]++
			return fmt.Errorf("%w: %w", errors.New("up to date"), dag.ErrorSkipParents)
		case "skipis": // an error type with its own Is method
			r.res.Faults["skip_parents_custom_is"]++
			return skipIs{"unchanged"}
		}
		if k > 0 {
			r.res.Faults["transient_then_ok"]++
		}
		return nil
	}
}

func (r *runState) main() {
	sc := r.sc
	ng, n := r.ng, sc.N
	dag.Logger = log.New(logSink{r}, "", 0)
	if sc.LogDiscard {
		dag.Logger = log.New(io.Discard, "", 0) // the documented way to silence the package
	}
	ctx, cancel := context.WithCancel(context.Background())
	defer cancel()
	if sc.Cancel.Deadline {
		at := simrt.Now().Add(24 * time.Hour)
		switch sc.Cancel.Kind {
		case "sleep":
			at = simrt.Now().Add(time.Duration(sc.Cancel.At) * r.unit)
		case "before-run":
			at = simrt.Now().Add(-time.Second)
		}
		ctx = deadlineCtx{ctx, at}
	}
	if sc.OuterBuf {
		// as if this Run were started by a task of an outer, buffering graph: the context already
		// carries that graph's buffers
		outer := &bytes.Buffer{}
		ctx = context.WithValue(ctx, dag.ContextKey("StdoutBuffer"), outer)
		ctx = context.WithValue(ctx, dag.ContextKey("StderrBuffer"), outer)
	}

	var tm *dag.TaskMap
	if sc.UseTaskMap {
		tm = dag.NewTaskMap()
	}
	tasks := make([]*dag.Task, n)
	alts := make([]*dag.Task, n) // a second, distinct Task object per id (same ID, same behaviour)
	for i := 0; i < n; i++ {
		tasks[i] = r.newTask(tm, r.id(i), r.taskFn(i, 0, cancel))
		alts[i] = dag.NewTask(r.id(i), r.taskFn(i, 1, cancel))
	}
	pick := func(c Call) *dag.Task {
		if c.Alt {
			return alts[c.T]
		}
		return tasks[c.T]
	}
	graphs := make([]*dag.Graph, ng)
	r.graphs = graphs
	var applyCalls func(gr *dag.Graph, g int, calls []Call)
	for g := 0; g < ng; g++ {
		gname := fmt.Sprintf("g%d", g)
		if sc.IDScheme == 3 {
			gname += " 100%d%"
		}
		gr := dag.NewGraph(gname)
		gr.TickerDuration = time.Duration(sc.TickNS)
		gr.UseColor = sc.UseColor
		if sc.Serial && !sc.SerialLast {
			gr.SetSerial()
		}
		if sc.MaxParFirst > 0 {
			gr.SetMaxParallel(sc.MaxParFirst) // an earlier value, overwritten below
		}
		if sc.MaxPar > 0 {
			gr.SetMaxParallel(sc.MaxPar)
		} else if sc.MaxParFirst > 0 {
			r.curMaxPar = sc.MaxParFirst
		}
		if sc.Serial && sc.SerialLast {
			gr.SetSerial()
		}
		if sc.Buffer {
			sw := &simWriter{r: r, g: g, since: 1}
			r.curWriter[g] = sw
			switch sc.Writer.Locker {
			case "mutex":
				gr.SetOutputBuffer(&lockedWriter{simWriter: sw})
			case "noop":
				gr.SetOutputBuffer(noCopyWriter{sw})
			default:
				gr.SetOutputBuffer(sw)
			}
		}
		apply := func(gr *dag.Graph, g int, calls []Call) {
			for _, c := range calls {
				if c.Only != 0 && c.Only != g+1 {
					continue
				}
				switch c.Op {
				case "add":
					if c.Via == "graph" {
						gr.AddTask(gr.Task(r.id(c.T)))
					} else {
						gr.AddTask(pick(c))
					}
				case "dep":
					ds := make([]*dag.Task, len(c.Deps))
					for j, d := range c.Deps {
						ds[j] = tasks[d]
					}
					if c.Via == "graph" {
						gr.TaskDependsOn(gr.Task(r.id(c.T)), ds...)
					} else {
						gr.TaskDependsOn(pick(c), ds...)
					}
				case "retries":
					if c.Via == "graph" {
						gr.TaskRetries(gr.Task(r.id(c.T)), c.R)
					} else {
						gr.TaskRetries(pick(c), c.R)
					}
				case "lookup":
					gr.Task(r.id(c.T))
				case "addnil":
					gr.AddTask(nil)
				case "addnofn":
					gr.AddTask(dag.NewTask(r.id(c.T), nil))
				case "addtmunknown":
					// a Task fetched from a TaskMap that does not know the id: empty Task, no function
					gr.AddTask(dag.NewTaskMap().Get("no-such-task"))
				case "addnoid":
					gr.AddTask(dag.NewTask("", func(context.Context, *getoptions.GetOpt, []string) error { return nil }))
				case "dfs":
					gr.DepthFirstSort()
				case "validate":
					gr.Validate(nil)
				case "validatetm":
					// a TaskMap with errors of its own (a duplicate id, an unknown id asked for), unrelated to this graph
					tm := dag.NewTaskMap()
					nop := func(context.Context, *getoptions.GetOpt, []string) error { return nil }
					tm.Add("dup", nop)
					tm.Add("dup", nop)
					tm.Get("never-added")
					gr.Validate(tm)
				case "string":
					_ = gr.String()
				}
			}
		}
		applyCalls = apply
		apply(gr, g, sc.Build)
		graphs[g] = gr
		// DepthFirstSort is read-only; observe it before the run, under the seeded map order - unless
		// monitors are about to ask concurrently: then theirs (and Run's own) are the first traversals
		// this graph ever sees.
		if sc.DFSProbe > 0 && sc.ChSeed%2 == 0 {
			r.dfsSkipped[g] = true
			continue
		}
		vs, err := gr.DepthFirstSort()
		r.dfsErr[g] = err
		for _, v := range vs {
			r.dfs[g] = append(r.dfs[g], string(v.ID))
		}
	}
	if sc.DFSOnly {
		r.res.Probes["deep_graph_sorted_only"]++
		for g := range graphs {
			if err := graphs[g].Validate(nil); err != nil && r.checkable() {
				r.fail("C16", "O16d", 0, "Validate of an error-free graph of %d tasks returned %v", sc.N, err)
			}
		}
		return
	}
	switch sc.Cancel.Kind {
	case "before-run":
		r.cancelPre = true
		r.doCancel(cancel, "cancel_before_run")
	case "sleep":
		simrt.GoNamed("canceller", func() {
			simrt.EnvSleep(time.Duration(sc.Cancel.At) * r.unit)
			r.doCancel(cancel, "cancel_external")
		})
	case "yield":
		simrt.GoNamed("canceller", func() {
			for k := 0; k < sc.Cancel.At; k++ {
				simrt.Yield()
			}
			r.doCancel(cancel, "cancel_external")
		})
	}
	// monitors: other goroutines of the program ask the graphs for their order while they run
	monDone := make([]chan int, ng)
	monN := make([]int, ng)
	for g := range monDone {
		monDone[g] = simrt.Make[int](sc.DFSProbe)
	}
	for mi := 0; mi < sc.DFSProbe; mi++ {
		mi, g := mi, mi%ng
		monN[g]++
		simrt.GoNamed(fmt.Sprintf("monitor%d", mi), func() {
			for k := 0; k < 2; k++ {
				r.probeDFS(g, fmt.Sprintf("monitor %d, concurrent with Run", mi))
				simrt.Yield()
			}
			simrt.Send(monDone[g], mi)
		})
	}
	fin := simrt.Make[int](ng)
	for g := 0; g < ng; g++ {
		g := g
		simrt.GoNamed(fmt.Sprintf("run:g%d", g), func() {
			name := fmt.Sprintf("g%d", g)
			runOnce := func() {
				err := graphs[g].Run(ctx, nil, []string{name})
				simrt.Lock()
				r.runErr[g] = err
				r.returned[g] = true
				r.retSlp[g] = simrt.SleepCount(name2run(g))
				r.snapAtt[g] = append([]int(nil), r.attempts[g]...)
				r.snapFinal[g] = append([]string(nil), r.finalRes[g]...)
				r.snapInFn[g] = append([]bool(nil), r.inFn[g]...)
				r.snapNEnt[g] = len(r.entries)
				r.retSeq[g] = simrt.Note("run-return", name)
				r.histAdd("return " + name + fmt.Sprint(r.runErr[g] == nil))
				simrt.Unlock()
			}
			waitMonitors := func() {
				// the graph is not touched again (phase 2 construction calls) while a monitor reads it
				for ; monN[g] > 0; monN[g]-- {
					simrt.Recv(monDone[g])
				}
			}
			runOnce()
			waitMonitors()
			for pi, ph := range sc.ExtraPhases() {
				if ng != 1 || !r.phase2Applicable() {
					break
				}
				simrt.Lock()
				r.posthocGraph(0, false) // the Run that just returned is judged on its own
				r.res.Probes["rerun_on_extended_graph"]++
				r.histAdd(fmt.Sprintf("phase%d", pi+2))
				for i := 0; i < n; i++ {
					r.carried[i] = r.carried[i] || r.attempts[0][i] > 0
					r.attempts[0][i] = 0
				}
				r.phase = pi + 2
				r.ms[0] = sc.ModelForPhase(0, pi+2)
				r.m = r.ms[0]
				r.returned[0] = false
				simrt.Unlock()
				applyCalls(graphs[0], 0, ph.Build)
				if ph.NewWriter && sc.Buffer && r.curWriter[0] != nil {
					// the program points the graph at another sink for the next Run
					simrt.Lock()
					r.curWriter[0].until = r.phase - 1
					nw := &simWriter{r: r, g: 0, since: r.phase}
					r.curWriter[0] = nw
					r.res.Faults["output_writer_replaced_between_runs"]++
					simrt.Unlock()
					graphs[0].SetOutputBuffer(nw)
				}
				if ph.MaxPar > 0 {
					graphs[0].SetMaxParallel(ph.MaxPar)
					r.curMaxPar = ph.MaxPar
				}
				if ph.TickNS != nil && !simrt.RealRuntime {
					graphs[0].TickerDuration = time.Duration(*ph.TickNS)
					// task durations are expressed in poll ticks: follow the new tick
					r.unit = time.Duration(*ph.TickNS)
					if r.unit <= 0 {
						r.unit = 1
					}
				}
				vs, err := graphs[0].DepthFirstSort()
				simrt.Lock()
				r.dfsErr[0], r.dfs[0], r.dfsSkipped[0] = err, nil, false
				for _, v := range vs {
					r.dfs[0] = append(r.dfs[0], string(v.ID))
				}
				simrt.Unlock()
				runOnce()
			}
			if sc.Again && ng == 1 && r.cancelSeq == 0 {
				simrt.Lock()
				r.posthocGraph(0, false)
				r.res.Probes["run_again_on_same_graph"]++
				r.histAdd("again")
				for i := 0; i < n; i++ {
					r.carried[i] = r.carried[i] || r.attempts[0][i] > 0
					r.attempts[0][i] = 0
				}
				r.phase++
				r.again = true
				r.returned[0] = false
				simrt.Unlock()
				runOnce()
			}
			simrt.Send(fin, g)
		})
	}
	for g := 0; g < ng; g++ {
		simrt.Recv(fin)
	}
	if sc.Cancel.Kind == "after-run" {
		r.doCancel(cancel, "cancel_after_last_exit")
	}
	// Lock probe (O16e): once every Run has returned, each Task must become lockable again (a task
	// goroutine may still be on its way out, so this waits). A Task lock that is never released
	// would make the next Run of any graph containing that Task hang.
	if !simrt.RealRuntime {
		for i := 0; i < n; i++ {
			r.lockProbe = fmt.Sprintf("t%02d", i)
			tasks[i].Lock()
			tasks[i].Unlock()
			r.lockProbe = fmt.Sprintf("t%02d'", i)
			alts[i].Lock()
			alts[i].Unlock()
		}
		r.lockProbe = ""
	}
}

// onSettled is the work-conservation oracle O16b. It is called when the scheduler loop polled twice
// in a row without anything else happening or being able to happen (DESIGN §3.7, §5.4).
func (r *runState) onSettled(gname string) {
	g := -1
	for k := 0; k < r.ng; k++ {
		if gname == name2run(k) {
			g = k
		}
	}
	if g < 0 || !r.checkable() || r.failSeq != 0 || r.cancelSeq != 0 || r.returned[g] {
		return
	}
	r.res.Probes["settled_checks"]++
	m := r.ms[g]
	S := make([]bool, r.sc.N)
	for _, i := range m.Order {
		if isSkip(r.finalRes[g][i]) && !r.inFn[g][i] {
			S[i] = true
		}
	}
	sp := m.Dependents(S)
	for _, i := range m.Order {
		if r.attempts[g][i] > 0 || sp[i] || (g == 0 && r.carried[i]) {
			continue
		}
		ready := true
		for _, d := range m.Deps[i] {
			if r.finalRes[g][d] != "ok" || r.inFn[g][d] {
				ready = false
			}
		}
		// a Task shared with the other graph may legitimately be waiting for that graph's
		// execution of it to finish
		if r.ng >= 2 && (r.taskActive[i][0] > 0 || r.taskActive[i][1] > 0) {
			continue
		}
		// slots in use: executing task functions, plus (several graphs only) goroutines of this graph
		// that hold a slot while waiting for a Task held by another graph - whatever the Task lock is
		// made of (a mutex, a channel used as a semaphore, ...)
		used := r.executing[g]
		if r.ng >= 2 {
			used += simrt.BlockedCount(name2run(g)+"/", "")
		}
		if ready && used < r.limitLo(g) {
			r.fail("C16", "O16b", simrt.Note("settled", ""), "g%d: t%02d is ready (all dependencies returned nil), %d of %s slots are in use, no failure or cancellation occurred, its Task is not executing anywhere, and the scheduler stays idle", g, i, used, limStr(r.limitLo(g)))
		}
	}
}

func name2run(g int) string { return fmt.Sprintf("run:g%d", g) }

// runInner: a task of the outer graph builds and runs its own graph with the context it was given.
// The inner graph has its own limit; what the outer graph does with the context must not leak in.
func (r *runState) runInner(ctx context.Context, in *InnerSpec) {
	ig := dag.NewGraph("inner")
	ig.TickerDuration = r.unit // the tick currently in force for the outer graph (durations are expressed in ticks)
	ig.SetMaxParallel(in.MaxPar)
	executing := 0
	for j := 0; j < in.N; j++ {
		j := j
		name := fmt.Sprintf("inner%02d", j)
		if in.SameID && j == 0 {
			// another Task object that happens to carry the ID of the task hosting this graph
			name = r.id(in.Host)
		}
		ig.AddTask(dag.NewTask(name, func(context.Context, *getoptions.GetOpt, []string) error {
			simrt.Lock()
			executing++
			seq := simrt.Note("inner-entry", fmt.Sprint(j))
			if executing > in.MaxPar {
				r.fail("C15", "O15a", seq, "inner graph (run by a task of g0 with the context it was given): %d task functions executing at once under SetMaxParallel(%d)", executing, in.MaxPar)
			}
			simrt.Unlock()
			simrt.EnvSleep(time.Duration(1+j%2) * r.unit)
			simrt.Lock()
			executing--
			simrt.Note("inner-exit", fmt.Sprint(j))
			simrt.Unlock()
			return nil
		}))
	}
	simrt.Lock()
	r.res.Faults["nested_graph_run"]++
	r.innerRunning = true
	simrt.Unlock()
	err := ig.Run(ctx, nil, []string{"inner"})
	simrt.Lock()
	r.innerRunning = false
	if err != nil && r.cancelSeq == 0 {
		r.fail("C14", "O14c", simrt.Note("inner-return", ""), "inner graph of successful tasks, no cancellation: Run returned %v", err)
	}
	simrt.Unlock()
}

// id is the task ID handed to the library for task i (messages of the harness always say tNN).
func (r *runState) id(i int) string {
	switch r.sc.IDScheme {
	case 1: // every id is a prefix of the next ones
		return "t" + strings.Repeat("x", i)
	case 2: // unusual characters
		return fmt.Sprintf("task %d/ü:\"%d\"", i, i)
	case 3: // characters that mean something to fmt
		return fmt.Sprintf("cov>=%d%%_%%s%%w", 80+i)
	}
	return fmt.Sprintf("t%02d", i)
}

// newTask creates the primary Task object of an id: directly, or through a TaskMap.
func (r *runState) newTask(tm *dag.TaskMap, id string, fn getoptions.CommandFn) *dag.Task {
	if tm != nil {
		tm.Add(id, fn)
		return tm.Get(id)
	}
	return dag.NewTask(id, fn)
}

// phase2Applicable: the first Run returned nil, nothing was cancelled, and every task of the graph
// ran successfully (so "its dependencies returned nil" has one meaning for old vertices).
func (r *runState) phase2Applicable() bool {
	if r.runErr[0] != nil || r.cancelSeq != 0 || !r.checkable() {
		return false
	}
	for _, i := range r.ms[0].Order {
		if r.finalRes[0][i] != "ok" || r.inFn[0][i] {
			return false
		}
	}
	return true
}

func limStr(l int) string {
	if l >= 1<<30 {
		return "unlimited"
	}
	return fmt.Sprint(l)
}

func (r *runState) posthoc() {
	sc, res := r.sc, r.res
	if res.Verdict == simrt.VPanic {
		if strings.Contains(res.PanicMsg, "simrt: unsupported") || strings.HasPrefix(res.PanicMsg, "simrt:") {
			return // machinery trouble, handled by the caller (exit 2)
		}
		if strings.HasPrefix(res.PanicMsg, "spin-abort") {
			return // the harness stopped the run itself after reporting a spin on the failing writer
		}
		first := res.PanicMsg
		if i := strings.Index(first, "\n"); i > 0 {
			first = first[:i]
		}
		r.fail("C16", "O16a", res.Seq, "panic while running the graph: %s", first)
	}
	allReturned := true
	for g := 0; g < r.ng; g++ {
		if !r.returned[g] {
			allReturned = false
		}
	}
	switch res.Verdict {
	case simrt.VDeadlock, simrt.VLivelock:
		if !allReturned {
			if r.innerRunning {
				r.fail("C16", "O16a", res.Seq, "Run of the inner graph (started by a task of g0 with the context it was given) never returns: %s", res.Verdict)
			}
			for g := 0; g < r.ng; g++ {
				if !r.returned[g] && !r.innerRunning {
					r.fail("C16", "O16a", res.Seq, "Run of g%d never returns: %s (every started task function had returned=%v; waiting: %s)", g, res.Verdict, r.noneExecuting(), strings.Join(res.Unfinished, ","))
					if r.cancelSeq != 0 && r.noneExecuting() {
						r.fail("C14", "O14g", res.Seq, "the context was cancelled, every started task function has returned, and Run of g%d never returns (it must return an error): %s; waiting: %s", g, res.Verdict, strings.Join(res.Unfinished, ","))
					}
				}
			}
		} else if r.lockProbe != "" {
			r.fail("C16", "O16e", res.Seq, "every Run returned, but the lock of Task %s is never released (%s): the next Run of any graph containing this Task would never return", r.lockProbe, res.Verdict)
		} else {
			res.Probes["leaked_goroutines_after_run"]++
		}
	case simrt.VCapped:
		res.Probes["capped_runs"]++
	}
	for g := 0; g < r.ng; g++ {
		r.posthocGraph(g, true)
	}
	_ = sc
}

func (r *runState) noneExecuting() bool {
	for g := 0; g < r.ng; g++ {
		if r.executing[g] != 0 {
			return false
		}
	}
	return true
}

// checkDFS is O16d: one answer of DepthFirstSort on graph g, judged against the model. who names
// the caller when the call overlapped with other activity on the same graph.
func (r *runState) checkDFS(g int, ids []string, err error, who string) {
	if !r.checkable() {
		return
	}
	m := r.ms[g]
	if who != "" {
		who = " (" + who + ")"
	}
	if err != nil {
		r.fail("C16", "O16d", 0, "DepthFirstSort of an acyclic graph returned an error%s: %v", who, err)
		return
	}
	pos := map[string]int{}
	for p, id := range ids {
		if _, dup := pos[id]; dup {
			r.fail("C16", "O16d", 0, "DepthFirstSort lists %s twice%s: %v", id, who, ids)
		}
		pos[id] = p
	}
	for _, i := range m.Order {
		id := r.id(i)
		p, ok := pos[id]
		if !ok {
			r.fail("C16", "O16d", 0, "DepthFirstSort misses %s%s: %v", id, who, ids)
			continue
		}
		for _, d := range m.Deps[i] {
			if q, ok := pos[r.id(d)]; ok && q > p {
				r.fail("C16", "O16d", 0, "DepthFirstSort puts %s before its dependency t%02d%s: %v", id, d, who, ids)
			}
		}
	}
	if len(ids) != len(m.Order) {
		r.fail("C16", "O16d", 0, "DepthFirstSort returned %d vertices for %d tasks%s: %v", len(ids), len(m.Order), who, ids)
	}
}

// probeDFS: one DepthFirstSort call on graph g from whoever is running now, judged at once.
func (r *runState) probeDFS(g int, who string) {
	vs, err := r.graphs[g].DepthFirstSort()
	ids := make([]string, len(vs))
	for i, v := range vs {
		ids[i] = string(v.ID)
	}
	simrt.Lock()
	r.res.Probes["dfs_while_running"]++
	r.checkDFS(g, ids, err, who)
	simrt.Unlock()
}

func (r *runState) posthocGraph(g int, final bool) {
	sc, m, res := r.sc, r.ms[g], r.res
	n := sc.N
	// O16d DepthFirstSort (observed before the run)
	if !r.dfsSkipped[g] {
		r.checkDFS(g, r.dfs[g], r.dfsErr[g], "")
	}
	if !r.returned[g] {
		return
	}
	err := r.runErr[g]
	nEntries := 0
	for _, e := range r.entries {
		if e.graph == g && e.phase == r.phase {
			nEntries++ // entries of the Run being judged (a second Run is judged on its own entries)
		}
	}
	// O16c cycles are rejected before any task starts
	if m.Cyclic {
		if err == nil {
			r.fail("C16", "O16c", r.retSeq[g], "the declared graph has a cycle but Run returned nil")
		}
		if nEntries > 0 {
			r.fail("C16", "O16c", r.retSeq[g], "the declared graph has a cycle but %d task entries happened", nEntries)
		}
		if m.DefErrors == 0 && err != nil && !errors.Is(err, dag.ErrorGraphHasCycle) {
			r.fail("C16", "O16c", r.retSeq[g], "cyclic graph without definition errors: Run error %q is not ErrorGraphHasCycle", err)
		}
		return
	}
	if m.DefErrors > 0 {
		res.Probes["runs_with_definition_errors"]++
		return // only termination is demanded (DESIGN §4.1)
	}
	if len(m.Order) == 0 {
		return
	}
	// state at the moment Run returned (a task still executing then has not "run successfully")
	att, fin, inFn := r.snapAtt[g], r.snapFinal[g], r.snapInFn[g]
	if r.again {
		// A repetition of Run on an unchanged graph: what it reports is the implementation's
		// business (the pinned code returns the errors of the earlier Run again), but nil still
		// means "every task ran successfully or was skipped through ErrorSkipParents".
		if r.runErr[g] == nil {
			S2 := make([]bool, n)
			for _, i := range m.Order {
				if isSkip(fin[i]) && !inFn[i] {
					S2[i] = true
				}
			}
			sp2 := m.Dependents(S2)
			for _, i := range m.Order {
				if !((fin[i] == "ok" && !inFn[i]) || S2[i] || sp2[i]) {
					r.fail("C14", "O14c", r.retSeq[g], "g%d: Run was called again on the unchanged graph and returned nil, but t%02d neither ran successfully nor was skipped through ErrorSkipParents (last result %q)", g, i, fin[i])
				}
			}
		}
		return
	}
	F, S, N := make([]bool, n), make([]bool, n), make([]bool, n)
	nF := 0
	for _, i := range m.Order {
		switch {
		case att[i] == 0 && r.carried[i] && fin[i] == "ok":
			// completed successfully in the first Run of this graph
		case att[i] == 0:
			N[i] = true
		case inFn[i]:
		case isErr(fin[i]):
			F[i] = true
			nF++
		case isSkip(fin[i]):
			S[i] = true
		}
	}
	sp := m.Dependents(S)
	fp := m.Dependents(F)
	for _, e := range r.entries {
		if e.graph != g {
			continue
		}
		if fp[e.task] {
			r.fail("C14", "O14a", e.seq, "g%d t%02d was started although it (transitively) depends on a task whose final attempt failed", g, e.task)
		}
		if sp[e.task] {
			r.fail("C14", "O14a", e.seq, "g%d t%02d was started although it (transitively) depends on a task that returned ErrorSkipParents", g, e.task)
		}
	}
	var errs *dag.Errors
	nSkipped, nOther := 0, 0
	found := make([]int, n)
	if err != nil {
		if !errors.As(err, &errs) {
			r.fail("C14", "O14b", r.retSeq[g], "Run returned an error that is not *dag.Errors: %v", err)
			return
		}
		for _, e := range errs.Errors {
			matched := false
			for _, i := range m.Order {
				if errors.Is(e, r.sents[i]) || errors.Is(e, error(r.errsVal[i])) {
					found[i]++
					matched = true
				}
			}
			if !matched && errors.Is(e, dag.ErrorTaskSkipped) {
				// (an entry that carries a task's own error is that task's failure, whatever else it wraps)
				nSkipped++
				matched = true
			}
			if !matched {
				nOther++
			}
		}
	}
	for _, i := range m.Order {
		if F[i] && found[i] == 0 {
			r.fail("C14", "O14b", r.retSeq[g], "g%d: final attempt of t%02d failed but Run's error has no entry wrapping its error: %v", g, i, err)
		}
		if !F[i] && found[i] > 0 {
			r.fail("C14", "O14b", r.retSeq[g], "g%d: t%02d is reported as failed but its final attempt did not fail (result %q): %v", g, i, fin[i], err)
		}
		if found[i] > 1 {
			res.Probes["failed_task_reported_more_than_once"]++
		}
	}
	want := 0
	for _, i := range m.Order {
		if N[i] && !sp[i] {
			want++
		}
	}
	if err != nil && nSkipped != want {
		r.fail("C14", "O14b", r.retSeq[g], "g%d: %d entries wrap ErrorTaskSkipped but %d tasks were never started and are not dependents of an ErrorSkipParents task: %v", g, nSkipped, want, err)
	}
	cancelled := r.cancelSeq != 0 && r.cancelSeq < r.retSeq[g]
	if nOther > 0 && !cancelled {
		r.fail("C14", "O14c", r.retSeq[g], "g%d: Run reports %d entries that are neither a task error nor a skipped task, and cancel() was never called: %v", g, nOther, err)
	}
	wantNil := nF == 0 && nOther == 0
	if (err == nil) != wantNil {
		r.fail("C14", "O14c", r.retSeq[g], "g%d: Run returned nil=%v, but failed tasks=%d and cancellation reported=%v", g, err == nil, nF, nOther > 0)
	}
	if err == nil {
		for _, i := range m.Order {
			if !((fin[i] == "ok" && !inFn[i]) || S[i] || sp[i]) {
				r.fail("C14", "O14c", r.retSeq[g], "g%d: Run returned nil but t%02d neither ran successfully nor was skipped through ErrorSkipParents (last result %q, still executing=%v)", g, i, fin[i], inFn[i])
			}
		}
	}
	// Probes about the moment the scheduler looked at the context (no verdict depends on them: what
	// a receive on ctx.Done() means to the implementation is its own business, DESIGN §14.5)
	if o := r.obsSeq[g]; o != 0 {
		if err == nil {
			res.Probes["polled_ctx_done_fired_but_run_returned_nil"]++
		}
		launched := 0
		for _, e := range r.entries {
			if e.graph == g && e.attempt == 0 && e.spawnSeq > r.cancelSeq && e.spawnSeq < o {
				launched++
			}
		}
		res.Probes["launches_between_cancel_and_observation"] += launched
	} else if r.cancelSeq != 0 && r.cancelSeq < r.retSeq[g] {
		res.Probes["cancel_issued_but_never_observed"]++
	}
	// O14f: the scheduler does not keep polling past a cancelled context: if, after cancel() was
	// called, the goroutine running Run went to sleep three or more times (three full idle cycles
	// of its loop) and Run then returned nil, the cancellation check is ineffective.
	if cancelled && !r.cancelPre && err == nil {
		if n := r.retSlp[g] - r.cancelSlp[g]; n >= 3 {
			r.fail("C14", "O14f", r.retSeq[g], "g%d: cancel() was called while Run was active, the scheduler loop slept %d more times (idle poll cycles) without noticing, and Run returned nil", g, n)
		} else {
			res.Probes["cancel_not_reported_fewer_than_3_idle_cycles"]++
		}
	}
	// O14e: a context cancelled before Run is called is not ignored
	if r.cancelPre && err == nil {
		r.fail("C14", "O14e", r.retSeq[g], "g%d: the context was cancelled before Run was called, yet Run returned nil", g)
	}
	// O15d buffered output
	if sc.Buffer && final && res.Verdict == simrt.VOK && sc.Writer.ErrFrom == 0 {
		out := r.writes[g].String()
		for _, e := range r.entries {
			if e.graph != g {
				continue
			}
			a := r.attemptSpec(g, e.task, e.attempt)
			if a.Chunks == 0 {
				continue
			}
			want := strings.Join(attemptOutput(a, g, e.task, e.attempt+100*(e.phase-1)), "")
			if n := strings.Count(out, want); n == 0 && strings.Contains(r.lostPayload, want) {
				// it was part of the one Write the sink rejected: it may be lost, or arrive with a later flush
				continue
			}
			if strings.Count(out, want) != 1 {
				r.fail("C15", "O15d", r.retSeq[g], "g%d: output of t%02d attempt %d is not one contiguous block in the writer's stream (wanted %s once in %s)", g, e.task, e.attempt+1, abbrev(want), abbrev(out))
			}
		}
	}
}

func abbrev(s string) string {
	s = strings.ReplaceAll(s, bigPad, "[70KiB]")
	if len(s) > 600 {
		s = s[:600] + "..."
	}
	return fmt.Sprintf("%q", s)
}

package main

import (
	"bufio"
	"os"
	"strings"
)

// Known findings (DESIGN §9): /verif/known_findings.txt, committed, never written at run time.
//
//	open: property=<id> matcher=<name> <what fails>
//	fixed: property=<id> <commit> <what failed>
//
// Only "open" entries can attribute a violation; "fixed" entries are documentation and match
// nothing, so a regression is reported as a VIOLATION again.
type KnownFinding struct {
	ID, Property, Matcher, What string
}

func loadKnown(path string) []KnownFinding {
	if path == "" {
		return nil
	}
	f, err := os.Open(path)
	if err != nil {
		return nil
	}
	defer f.Close()
	var out []KnownFinding
	sc := bufio.NewScanner(f)
	for sc.Scan() {
		line := strings.TrimSpace(sc.Text())
		if !strings.HasPrefix(line, "open:") {
			continue
		}
		kf := KnownFinding{}
		var rest []string
		for _, w := range strings.Fields(strings.TrimPrefix(line, "open:")) {
			switch {
			case strings.HasPrefix(w, "property=") && kf.Property == "":
				kf.Property = strings.TrimPrefix(w, "property=")
			case strings.HasPrefix(w, "matcher=") && kf.Matcher == "":
				kf.Matcher = strings.TrimPrefix(w, "matcher=")
			default:
				rest = append(rest, w)
			}
		}
		kf.What = strings.Join(rest, " ")
		kf.ID = kf.Property + ":" + kf.Matcher
		out = append(out, kf)
	}
	return out
}

// matchKnown attributes a minimised failing run to an open finding only if (a) the scenario shows
// the finding's pattern and (b) the violation disappears when the matching calls are removed.
func matchKnown(known []KnownFinding, prop string, f *found) *KnownFinding {
	for i := range known {
		kf := &known[i]
		if kf.Property != prop {
			continue
		}
		switch kf.Matcher {
		case "readd-after-edge":
			// construction history contains AddTask(x) after x already has an edge or a retry count
			if !f.sc.Model().ReaddEdge {
				continue
			}
			c := cloneScenario(f.sc)
			seen := make([]bool, c.N)
			var out []Call
			for _, call := range c.Build {
				if call.Op == "add" && seen[call.T] {
					continue // drop every re-add
				}
				switch call.Op {
				case "add", "dep", "retries":
					seen[call.T] = true
				}
				for _, d := range call.Deps {
					seen[d] = true
				}
				out = append(out, call)
			}
			c.Build = out
			if tryScenario(c, f.decisions, prop, "", 200) == nil {
				return kf
			}
		}
	}
	return nil
}

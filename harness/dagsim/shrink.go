package main

import (
	"encoding/json"
	"time"

	"verif/simrt"
)

// Minimisation (DESIGN §3.8): scenario delta-debugging first (each candidate is tried with the
// recorded decisions replayed by name and then with fresh schedule seeds), then schedule shrinking
// (decisions replaced by the default "keep running the current goroutine"), while a violation of
// the same oracle keeps firing.

func cloneScenario(sc *Scenario) *Scenario {
	b, _ := json.Marshal(sc)
	var c Scenario
	json.Unmarshal(b, &c)
	return &c
}

func firstMatching(res *Result, prop, oracle string) *Violation {
	for i := range res.Viol {
		v := &res.Viol[i]
		if v.Prop == prop && (oracle == "" || v.Oracle == oracle) {
			return v
		}
	}
	return nil
}

type found struct {
	sc        *Scenario
	decisions []string // full decision log of the failing run ("" = default decision)
	res       *Result
}

// tryScenario looks for a schedule of sc that violates (prop, oracle).
func tryScenario(sc *Scenario, prev []string, prop, oracle string, fresh int) *found {
	if prev != nil {
		rc := &simrt.ReplayChooser{Log: prev}
		res := Execute(sc, rc, false)
		if firstMatching(res, prop, oracle) != nil {
			return &found{sc, rc.Record, res}
		}
	}
	for k := 0; k < fresh; k++ {
		c := simrt.NewRandomChooser(simrt.Mix(sc.ChSeed, uint64(k)), sc.Policy, true)
		res := Execute(sc, c, false)
		if firstMatching(res, prop, oracle) != nil {
			return &found{sc, c.Log, res}
		}
	}
	return nil
}

func dropTask(sc *Scenario, t int) *Scenario {
	c := cloneScenario(sc)
	c.Build = dropTaskFrom(c.Build, t)
	for _, ph := range c.ExtraPhases() {
		ph.Build = dropTaskFrom(ph.Build, t)
	}
	return c
}

func dropTaskFrom(calls []Call, t int) []Call {
	var out []Call
	for _, call := range calls {
		if call.T == t && call.Op != "addnil" && call.Op != "addnoid" && call.Op != "dfs" && call.Op != "validate" && call.Op != "validatetm" && call.Op != "string" {
			continue
		}
		if call.Op == "dep" {
			var ds []int
			for _, d := range call.Deps {
				if d != t {
					ds = append(ds, d)
				}
			}
			if len(ds) == 0 {
				// keep the mention of the dependent so that it still exists
				call = Call{Op: "add", T: call.T}
			} else {
				call.Deps = ds
			}
		}
		out = append(out, call)
	}
	return out
}

func allCalls(sc *Scenario) []Call {
	calls := append([]Call(nil), sc.Build...)
	for _, ph := range sc.ExtraPhases() {
		calls = append(calls, ph.Build...)
	}
	return calls
}

func mentions(sc *Scenario) []bool {
	m := make([]bool, sc.N)
	for _, c := range allCalls(sc) {
		switch c.Op {
		case "add", "dep", "retries", "lookup", "addnofn":
			m[c.T] = true
		}
		for _, d := range c.Deps {
			m[d] = true
		}
	}
	return m
}

// keepFirst drops every task with an index >= n from the construction history (the task specs stay;
// unmentioned ones are reset at the end of Shrink).
func keepFirst(sc *Scenario, n int) *Scenario {
	c := cloneScenario(sc)
	filter := func(calls []Call) []Call {
		var out []Call
		for _, call := range calls {
			taskOp := call.Op == "add" || call.Op == "dep" || call.Op == "retries" || call.Op == "lookup" || call.Op == "addnofn"
			if taskOp && call.T >= n {
				continue
			}
			if call.Op == "dep" {
				var ds []int
				for _, d := range call.Deps {
					if d < n {
						ds = append(ds, d)
					}
				}
				if len(ds) == 0 {
					continue
				}
				call.Deps = ds
			}
			out = append(out, call)
		}
		return out
	}
	c.Build = filter(c.Build)
	for _, ph := range c.ExtraPhases() {
		ph.Build = filter(ph.Build)
	}
	return c
}

// mentioned counts the tasks the construction history still names.
func mentioned(sc *Scenario) int {
	n := 0
	for _, m := range mentions(sc) {
		if m {
			n++
		}
	}
	return n
}

// candidates yields simpler variants of sc, most drastic first.
func candidates(sc *Scenario) []*Scenario {
	var out []*Scenario
	if k := mentioned(sc); k > 200 {
		// hundreds of tasks: one candidate per task would take minutes to build; cut by halves first
		for _, n := range []int{k / 2, k * 3 / 4, k * 7 / 8, k - 8, k - 1} {
			if n >= 1 && n < k {
				out = append(out, keepFirst(sc, n))
			}
		}
		return out
	}
	add := func(f func(c *Scenario) bool) {
		c := cloneScenario(sc)
		if f(c) {
			out = append(out, c)
		}
	}
	add(func(c *Scenario) bool { ok := c.Graphs > 1; c.Graphs = 1; return ok })
	add(func(c *Scenario) bool { ok := c.Graphs > 2; c.Graphs = 2; return ok })
	add(func(c *Scenario) bool { ok := c.Again; c.Again = false; return ok })
	add(func(c *Scenario) bool { ok := c.Inner != nil; c.Inner = nil; return ok })
	add(func(c *Scenario) bool {
		ok := false
		for i := range c.Tasks {
			if c.Tasks[i].G1 != nil {
				c.Tasks[i].G1, ok = nil, true
			}
		}
		return ok
	})
	for t := range sc.Tasks {
		if sc.Tasks[t].G1 != nil {
			t := t
			add(func(c *Scenario) bool { c.Tasks[t].G1 = nil; return true })
		}
	}
	add(func(c *Scenario) bool { ok := c.Phase3 != nil; c.Phase3 = nil; return ok })
	add(func(c *Scenario) bool { ok := c.Phase2 != nil; c.Phase2, c.Phase3 = c.Phase3, nil; return ok })
	for pi, ph := range sc.ExtraPhases() {
		pi := pi
		for i := range ph.Build {
			i := i
			add(func(c *Scenario) bool {
				p := c.ExtraPhases()[pi]
				p.Build = append(p.Build[:i:i], p.Build[i+1:]...)
				return true
			})
		}
		add(func(c *Scenario) bool { p := c.ExtraPhases()[pi]; ok := p.MaxPar != 0; p.MaxPar = 0; return ok })
	}
	add(func(c *Scenario) bool {
		ok := c.Cancel.Kind != "none" && c.Cancel.Kind != ""
		c.Cancel = CancelSpec{Kind: "none"}
		for i := range c.Tasks {
			for k := range c.Tasks[i].Attempts {
				if c.Tasks[i].Attempts[k].Cancel != "" {
					c.Tasks[i].Attempts[k].Cancel = ""
					ok = true
				}
			}
		}
		return ok
	})
	add(func(c *Scenario) bool { ok := c.Cancel.Deadline; c.Cancel.Deadline = false; return ok })
	add(func(c *Scenario) bool {
		ok := c.Buffer
		c.Buffer = false
		c.Writer = WriterSpec{}
		c.OuterBuf = false
		return ok
	})
	add(func(c *Scenario) bool { ok := c.LogErr; c.LogErr = false; return ok })
	add(func(c *Scenario) bool { ok := c.LogDiscard; c.LogDiscard = false; return ok })
	add(func(c *Scenario) bool { ok := c.Writer.Locker != ""; c.Writer.Locker = ""; return ok })
	add(func(c *Scenario) bool { ok := c.Writer.ErrOnly != 0; c.Writer.ErrOnly = 0; return ok })
	add(func(c *Scenario) bool { ok := c.OuterBuf; c.OuterBuf = false; return ok })
	add(func(c *Scenario) bool { ok := c.IDScheme != 0; c.IDScheme = 0; return ok })
	add(func(c *Scenario) bool { ok := c.UseTaskMap; c.UseTaskMap = false; return ok })
	add(func(c *Scenario) bool { ok := c.UseColor; c.UseColor = false; return ok })
	add(func(c *Scenario) bool { ok := c.MaxParFirst != 0; c.MaxParFirst = 0; return ok })
	add(func(c *Scenario) bool { ok := c.Serial; c.Serial = false; return ok })
	add(func(c *Scenario) bool { ok := c.MaxPar != 0; c.MaxPar = 0; return ok })
	add(func(c *Scenario) bool {
		ok := c.Policy.Kind != "uniform" || c.Policy.ClockP != 0
		c.Policy.Kind, c.Policy.ClockP, c.Policy.Sticky, c.Policy.PCTDepth = "uniform", 0, 0, 0
		return ok
	})
	add(func(c *Scenario) bool {
		ok := c.MapBase != "asc" || c.Policy.MapMode != "asc"
		c.MapBase, c.Policy.MapMode = "asc", "asc"
		return ok
	})
	add(func(c *Scenario) bool { ok := c.TickNS != 1_000_000; c.TickNS = 1_000_000; return ok })
	men := mentions(sc)
	for t := sc.N - 1; t >= 0; t-- {
		if men[t] {
			out = append(out, dropTask(sc, t))
		}
	}
	for i := range sc.Build {
		i := i
		add(func(c *Scenario) bool { c.Build = append(c.Build[:i:i], c.Build[i+1:]...); return true })
		if len(sc.Build[i].Deps) > 1 {
			for j := range sc.Build[i].Deps {
				j := j
				add(func(c *Scenario) bool {
					d := c.Build[i].Deps
					c.Build[i].Deps = append(d[:j:j], d[j+1:]...)
					return true
				})
			}
		}
		if sc.Build[i].Op == "retries" && sc.Build[i].R > 0 {
			add(func(c *Scenario) bool { c.Build[i].R = 0; return true })
		}
		if sc.Build[i].Via != "" {
			add(func(c *Scenario) bool { c.Build[i].Via = ""; return true })
		}
		if sc.Build[i].Alt {
			add(func(c *Scenario) bool { c.Build[i].Alt = false; return true })
		}
		if sc.Build[i].Only != 0 {
			add(func(c *Scenario) bool { c.Build[i].Only = 0; return true })
		}
	}
	for t := range sc.Tasks {
		if !men[t] {
			continue
		}
		t := t
		if len(sc.Tasks[t].Attempts) > 1 {
			add(func(c *Scenario) bool { a := c.Tasks[t].Attempts; c.Tasks[t].Attempts = a[:len(a)-1]; return true })
		}
		for k := range sc.Tasks[t].Attempts {
			k := k
			a := sc.Tasks[t].Attempts[k]
			if a.Res != "ok" {
				add(func(c *Scenario) bool { c.Tasks[t].Attempts[k].Res = "ok"; return true })
			}
			if a.Dur > 1 {
				add(func(c *Scenario) bool { c.Tasks[t].Attempts[k].Dur = 1; return true })
			} else if a.Dur == 1 {
				add(func(c *Scenario) bool { c.Tasks[t].Attempts[k].Dur = 0; return true })
			}
			if a.Chunks > 0 {
				add(func(c *Scenario) bool { c.Tasks[t].Attempts[k].Chunks--; return true })
			}
			if a.Big {
				add(func(c *Scenario) bool { c.Tasks[t].Attempts[k].Big = false; return true })
			}
		}
	}
	return out
}

// Shrink minimises a failing run within a wall-clock budget.
func Shrink(f *found, prop, oracle string, budget time.Duration) *found {
	deadline := time.Now().Add(budget)
	cur := f
	for improved := true; improved && time.Now().Before(deadline); {
		improved = false
		for _, c := range candidates(cur.sc) {
			if time.Now().After(deadline) {
				break
			}
			if nf := tryScenario(c, cur.decisions, prop, oracle, 40); nf != nil {
				cur = nf
				improved = true
				break
			}
		}
	}
	// unmentioned task specs are noise in the replay file
	men := mentions(cur.sc)
	for t := range cur.sc.Tasks {
		if !men[t] {
			cur.sc.Tasks[t].Attempts = []AttemptSpec{{Res: "ok"}}
		}
	}
	// schedule shrinking: default as many decisions as possible
	dec := append([]string(nil), cur.decisions...)
	try := func(d []string) *found {
		rc := &simrt.ReplayChooser{Log: d}
		res := Execute(cur.sc, rc, false)
		if firstMatching(res, prop, oracle) != nil {
			return &found{cur.sc, d, res}
		}
		return nil
	}
	// cut the tail after the violation first: decisions past the end are never asked
	for chunk := len(dec) / 2; chunk >= 1 && time.Now().Before(deadline); chunk /= 2 {
		for start := 0; start < len(dec) && time.Now().Before(deadline); start += chunk {
			end := start + chunk
			if end > len(dec) {
				end = len(dec)
			}
			all := true
			for _, x := range dec[start:end] {
				if x != "" {
					all = false
				}
			}
			if all {
				continue
			}
			cand := append([]string(nil), dec...)
			for i := start; i < end; i++ {
				cand[i] = ""
			}
			if nf := try(cand); nf != nil {
				dec = cand
				cur = nf
			}
		}
	}
	cur.decisions = dec
	return cur
}

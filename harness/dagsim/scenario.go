package main

import (
	"fmt"
	"sort"

	"verif/simrt"
)

// A Scenario is everything a simulated run of the DAG runner depends on, apart from the decisions
// of the Chooser. It is generated from one seed and stored explicitly in replay files.
type Scenario struct {
	N           int          `json:"n"`     // task ids are t00..t(N-1); only ids mentioned in Build exist
	Tasks       []TaskSpec   `json:"tasks"` // behaviour per task id
	Build       []Call       `json:"build"` // construction history: public API calls in order
	Graphs      int          `json:"graphs"`
	Serial      bool         `json:"serial,omitempty"`
	MaxPar      int          `json:"max_par,omitempty"` // 0 = SetMaxParallel not called
	Buffer      bool         `json:"buffer,omitempty"`
	TickNS      int64        `json:"tick_ns"`
	Cancel      CancelSpec   `json:"cancel"`
	Writer      WriterSpec   `json:"writer"`
	LogErr      bool         `json:"log_err,omitempty"`     // dag.Logger's sink fails every write
	LogDiscard  bool         `json:"log_discard,omitempty"` // dag.Logger writes to io.Discard
	DFSOnly     bool         `json:"dfs_only,omitempty"`    // the graph is only built, validated and sorted, never run (very deep graphs)
	Policy      simrt.Policy `json:"policy"`
	MapBase     string       `json:"map_base,omitempty"`
	ChSeed      uint64       `json:"chooser_seed"`
	Phase2      *Phase2Spec  `json:"phase2,omitempty"`       // single graph only: after a clean first Run, extend the graph and Run it again
	Phase3      *Phase2Spec  `json:"phase3,omitempty"`       // ... and once more after a clean second Run
	IDScheme    int          `json:"id_scheme,omitempty"`    // 0: t00,t01..; 1: every id is a prefix of the next; 2: ids with spaces, slashes, quotes, non-ASCII
	UseTaskMap  bool         `json:"use_task_map,omitempty"` // primary Task objects come from TaskMap.Add/Get
	UseColor    bool         `json:"use_color,omitempty"`
	DFSProbe    int          `json:"dfs_probe,omitempty"`           // this many monitor goroutines call DepthFirstSort() on the graphs while they run
	OuterBuf    bool         `json:"outer_buffer_in_ctx,omitempty"` // the context given to Run already carries StdoutBuffer/StderrBuffer values (a nested, buffering graph)
	MaxParFirst int          `json:"max_par_first,omitempty"`       // an earlier SetMaxParallel call with this value (the later one wins)
	SerialLast  bool         `json:"serial_last,omitempty"`         // SetSerial is called after SetMaxParallel instead of before
	Inner       *InnerSpec   `json:"inner,omitempty"`               // a task that itself builds and runs another graph with the context it was given
	Again       bool         `json:"run_again,omitempty"`           // single graph, no cancellation: call Run once more on the same graph after the last Run, whatever it returned
	Family      string       `json:"family,omitempty"`              // graph shape family / sweep tag (informational)
	Mode        string       `json:"mode,omitempty"`                // canonical | permuted | wild
}

// Phase2Spec: more construction calls and possibly a new limit, applied after the first Run
// returned nil with every task successful; then Run is called again on the same graph.
type Phase2Spec struct {
	Build  []Call `json:"build"`
	MaxPar int    `json:"max_par,omitempty"` // >0: SetMaxParallel(MaxPar) before the second Run
	TickNS *int64 `json:"tick_ns,omitempty"` // a new TickerDuration for the next Run
	// NewWriter: SetOutputBuffer with another sink before the next Run
	NewWriter bool `json:"new_writer,omitempty"`
}

// ExtraPhases lists the phases after the first Run, in order.
func (sc *Scenario) ExtraPhases() []*Phase2Spec {
	var out []*Phase2Spec
	if sc.Phase2 != nil {
		out = append(out, sc.Phase2)
		if sc.Phase3 != nil {
			out = append(out, sc.Phase3)
		}
	}
	return out
}

// InnerSpec: task Host, on its first attempt, runs an inner graph of N independent tasks under its
// own SetMaxParallel(MaxPar), passing on the context it received.
type InnerSpec struct {
	Host   int  `json:"host"`
	N      int  `json:"n"`
	MaxPar int  `json:"max_par"`
	SameID bool `json:"same_id,omitempty"` // one task of the inner graph is another Task object carrying the ID of the hosting task
}

type TaskSpec struct {
	Attempts []AttemptSpec `json:"attempts"` // attempt k uses Attempts[min(k, len-1)]
	// G1 (two graphs only): the behaviour of this task when it runs in graph g1, if it differs
	// from its behaviour in g0 (one shared *Task, different outcomes per graph).
	G1 []AttemptSpec `json:"attempts_in_g1,omitempty"`
}

type AttemptSpec struct {
	Dur    int    `json:"dur"`              // simulated duration in poll ticks
	Res    string `json:"res"`              // ok | err | skip | skipw | skipj | skipm | skipis (ErrorSkipParents itself / wrapped with %w / inside errors.Join / one of two %w / through an Is method) | errs0 | errs1 (the task returns a *dag.Errors value: empty / with one entry) | errctx (an error wrapping context.DeadlineExceeded: the task's own timeout) | errsk (an error wrapping dag.ErrorTaskSkipped, forwarded from a nested graph's report)
	Chunks int    `json:"chunks,omitempty"` // output chunks written when buffering is on
	Big    bool   `json:"big,omitempty"`    // the first chunk carries 70 KiB of padding (more than any sane internal buffer limit)
	Cancel string `json:"cancel,omitempty"` // "", entry, exit: call cancel() there
	DFS    bool   `json:"dfs,omitempty"`    // the task asks its graph for DepthFirstSort() while it runs (a read-only call)
	// SetMaxPar > 0: while it runs the task calls g.SetMaxParallel(n) on its own graph (no effect on the
	// Run in progress, whose limit was fixed when it started)
	SetMaxPar int `json:"set_max_parallel,omitempty"`
	// (set_retries - a dependency lowering a dependent's retry budget while the graph runs - was tried
	// and withdrawn: whether Run reads the budget when it starts or when the task starts is not said
	// anywhere, so no oracle can judge the number of attempts afterwards; DESIGN section 14.3, wave 12)
	SetRetries *SetRetriesSpec `json:"set_retries,omitempty"`
}

type SetRetriesSpec struct {
	T int `json:"t"`
	R int `json:"r"`
}

// Call is one public-API call of the construction history.
type Call struct {
	Op   string `json:"op"`             // add | dep | retries | lookup | addnil | addnofn | addnoid
	T    int    `json:"t"`              // task id
	Deps []int  `json:"deps,omitempty"` // dep: the dependencies
	R    int    `json:"r,omitempty"`    // retries
	Via  string `json:"via,omitempty"`  // "", "graph" (g.Task(id) supplies the *Task), "tm" (TaskMap.Get)
	Alt  bool   `json:"alt,omitempty"`  // pass the ALTERNATE *Task object of this id (same ID, same behaviour, distinct object and lock)
	Only int    `json:"only,omitempty"` // 0: the call is made on every graph; 1: on g0 only; 2: on g1 only
}

func (c Call) String() string {
	switch c.Op {
	case "add":
		s := fmt.Sprintf("AddTask(t%02d", c.T)
		if c.Alt {
			s += "'"
		}
		s += ")"
		if c.Only != 0 {
			s += fmt.Sprintf(" [g%d only]", c.Only-1)
		}
		return s
	case "dep":
		s := fmt.Sprintf("TaskDependsOn(t%02d", c.T)
		if c.Via == "graph" {
			s = fmt.Sprintf("TaskDependsOn(g.Task(\"t%02d\")", c.T)
		}
		for _, d := range c.Deps {
			s += fmt.Sprintf(", t%02d", d)
		}
		return s + ")"
	case "retries":
		s := fmt.Sprintf("TaskRetries(t%02d, %d)", c.T, c.R)
		if c.Only != 0 {
			s += fmt.Sprintf(" [g%d only]", c.Only-1)
		}
		return s
	case "lookup":
		return fmt.Sprintf("Task(\"t%02d\")", c.T)
	case "addnil":
		return "AddTask(nil)"
	case "addnofn":
		return fmt.Sprintf("AddTask(&Task{ID:t%02d, Fn:nil})", c.T)
	case "addnoid":
		return "AddTask(&Task{ID:\"\"})"
	case "addtmunknown":
		return "AddTask(taskMap.Get(\"no-such-task\"))"
	case "dfs":
		return "DepthFirstSort()"
	case "validate":
		return "Validate(nil)"
	case "validatetm":
		return "Validate(taskMapWithErrorsOfItsOwn)"
	case "string":
		return "String()"
	}
	return c.Op
}

type CancelSpec struct {
	Kind     string `json:"kind"`               // none | sleep | yield | before-run | after-run (in-task cancels live in AttemptSpec)
	At       int    `json:"at,omitempty"`       // ticks (sleep) or yields (yield)
	Deadline bool   `json:"deadline,omitempty"` // the context ends like a deadline/timeout context: Err() == context.DeadlineExceeded
}

type WriterSpec struct {
	Yield   bool   `json:"yield,omitempty"`    // the output sink yields inside Write
	ErrFrom int    `json:"err_from,omitempty"` // k>0: from the k-th Write on the sink rejects everything (closed pipe)
	ErrOnly int    `json:"err_only,omitempty"` // k>0: the k-th Write alone is rejected (a hiccup), the following ones work again
	Locker  string `json:"locker,omitempty"`   // "": a plain io.Writer; "mutex": Write takes an embedded mutex, so the sink also has Lock/Unlock; "noop": Lock/Unlock exist and do nothing (noCopy marker)
}

// ---- reference model of the declared graph ----

type Model struct {
	Exists    []bool
	Deps      [][]int // declared edges (dependent -> dependencies), duplicates removed
	Retries   []int
	DefErrors int   // calls the documentation says are recorded as definition errors
	Cyclic    bool  // the declared graph has a cycle (self edges included)
	Readd     bool  // some AddTask named a task that already existed
	ReaddEdge bool  // ... and that task already had an edge or a retry count
	Order     []int // ids in existence
}

// Model returns the declared graph of g0; ModelFor that of graph g (calls can be per graph).
func (sc *Scenario) Model() *Model { return sc.ModelFor(0) }

func (sc *Scenario) ModelFor(g int) *Model { return sc.ModelForPhase(g, 1) }

// ModelForPhase: phase 2 = the graph after the phase-2 construction calls were applied as well.
func (sc *Scenario) ModelForPhase(g, phase int) *Model {
	m := &Model{Exists: make([]bool, sc.N), Deps: make([][]int, sc.N), Retries: make([]int, sc.N)}
	hasEdge := make([]bool, sc.N)
	calls := append([]Call(nil), sc.Build...)
	for pi, ph := range sc.ExtraPhases() {
		if pi+2 <= phase {
			calls = append(calls, ph.Build...)
		}
	}
	for _, c := range calls {
		if c.Only != 0 && c.Only != g+1 {
			continue
		}
		switch c.Op {
		case "add":
			if c.Via == "graph" && !m.Exists[c.T] {
				m.DefErrors += 2 // g.Task(id): not found; AddTask of the returned empty task: no function
				continue
			}
			if m.Exists[c.T] {
				m.Readd = true
				if hasEdge[c.T] || m.Retries[c.T] != 0 {
					m.ReaddEdge = true
				}
			}
			m.Exists[c.T] = true
		case "dep":
			if c.Via == "graph" && !m.Exists[c.T] {
				m.DefErrors += 2 // g.Task(id): not found; TaskDependsOn with the returned empty task: no function
				continue
			}
			m.Exists[c.T] = true
			for _, d := range c.Deps {
				m.Exists[d] = true
				dup := false
				for _, e := range m.Deps[c.T] {
					if e == d {
						dup = true
					}
				}
				if dup {
					m.DefErrors++ // ErrorTaskDependencyDuplicate; the rest of the call is dropped
					break
				}
				m.Deps[c.T] = append(m.Deps[c.T], d)
				hasEdge[c.T], hasEdge[d] = true, true
			}
		case "retries":
			if c.Via == "graph" && !m.Exists[c.T] {
				m.DefErrors += 2
				continue
			}
			m.Exists[c.T] = true
			m.Retries[c.T] = c.R
		case "lookup":
			if !m.Exists[c.T] {
				m.DefErrors++ // ErrorTaskNotFound
			}
		case "addnil", "addnofn", "addnoid", "addtmunknown":
			m.DefErrors++
		}
	}
	for i := 0; i < sc.N; i++ {
		if m.Exists[i] {
			m.Order = append(m.Order, i)
		}
	}
	// cycle detection (independent of the implementation: Kahn)
	indeg := make([]int, sc.N) // number of unfinished dependencies
	for i := range m.Deps {
		indeg[i] = len(m.Deps[i])
	}
	doneN, total := 0, len(m.Order)
	done := make([]bool, sc.N)
	for progress := true; progress; {
		progress = false
		for _, i := range m.Order {
			if done[i] || indeg[i] != 0 {
				continue
			}
			done[i] = true
			doneN++
			progress = true
			for _, j := range m.Order {
				for _, d := range m.Deps[j] {
					if d == i {
						indeg[j]--
					}
				}
			}
		}
	}
	m.Cyclic = doneN != total
	return m
}

// Dependents returns the transitive dependents of the given set (the set itself excluded unless
// reachable).
func (m *Model) Dependents(of []bool) []bool {
	out := make([]bool, len(m.Exists))
	for changed := true; changed; {
		changed = false
		for _, i := range m.Order {
			if out[i] {
				continue
			}
			for _, d := range m.Deps[i] {
				if of[d] || out[d] {
					out[i] = true
					changed = true
					break
				}
			}
		}
	}
	return out
}

// ---- generation ----

type GenOpts struct {
	Prop     string
	Thorough bool
}

var tickChoices = []int64{0, 1, 1_000_000, 1_000_000, 1_000_000_000, 60_000_000_000, -1}

func genPolicy(r *simrt.RNG) (simrt.Policy, string) {
	p := simrt.Policy{}
	switch r.Intn(10) {
	case 0, 1, 2:
		p.Kind = "uniform"
	case 3, 4:
		p.Kind, p.Sticky = "sticky", 0.5
	case 5, 6:
		p.Kind, p.Sticky = "sticky", 0.9
	case 7, 8:
		p.Kind, p.PCTDepth, p.PCTSpan = "pct", 1+r.Intn(3), 40+r.Intn(400)
	default:
		p.Kind = "rr"
	}
	p.ClockP = []float64{0, 0, 0.05, 0.3}[r.Intn(4)]
	base := "asc"
	switch r.Intn(6) {
	case 0:
		p.MapMode = "asc"
	case 1:
		p.MapMode, base = "desc", "desc"
	case 2:
		p.MapMode, base = "rot", "rot"
	default:
		p.MapMode = "shuffle"
	}
	return p, base
}

// genEdges produces deps[i] ⊆ {j > i} for a shape family, i.e. an acyclic declared graph in which
// lower ids depend on higher ids (like the repository's test graph).
func genEdges(r *simrt.RNG, n int, family string) [][]int {
	deps := make([][]int, n)
	add := func(i, j int) {
		for _, e := range deps[i] {
			if e == j {
				return
			}
		}
		deps[i] = append(deps[i], j)
	}
	switch family {
	case "chain":
		for i := 0; i+1 < n; i++ {
			add(i, i+1)
		}
	case "fanin": // one task depends on all others
		for j := 1; j < n; j++ {
			add(0, j)
		}
	case "fanout": // all depend on the last
		for i := 0; i+1 < n; i++ {
			add(i, n-1)
		}
	case "diamond": // layered lattice
		w := 2 + r.Intn(2)
		for i := 0; i < n; i++ {
			layer := i / w
			for j := (layer + 1) * w; j < (layer+2)*w && j < n; j++ {
				if r.Intn(3) != 0 {
					add(i, j)
				}
			}
		}
	case "forest":
		for i := 0; i < n; i++ {
			if i+1 < n && r.Intn(2) == 0 {
				add(i, i+1+r.Intn(n-i-1))
			}
		}
	case "flat":
	default: // random
		p := []float64{0.15, 0.3, 0.5}[r.Intn(3)]
		for i := 0; i < n; i++ {
			for j := i + 1; j < n; j++ {
				if r.Float() < p {
					add(i, j)
				}
			}
		}
	}
	return deps
}

var families = []string{"random", "random", "random", "chain", "fanin", "fanout", "diamond", "diamond", "forest", "flat"}

func shuffleInts(r *simrt.RNG, a []int) {
	for i := len(a) - 1; i > 0; i-- {
		j := r.Intn(i + 1)
		a[i], a[j] = a[j], a[i]
	}
}

// buildCalls turns (edges, retries) into a construction history.
//   - canonical: like the repository's tests: AddTask for all, then TaskRetries, then edges.
//   - permuted : the same calls in a random order, edges possibly before AddTask, edges split or
//     grouped per call, redundant re-AddTask of known tasks, repeated TaskRetries (last one wins);
//     no call is a definition error, so the declared graph is the same.
//   - wild     : permuted plus, with some probability, self edges, back edges (cycles), duplicate
//     edges, nil tasks, tasks without function or id, lookups of unknown ids.
func buildCalls(r *simrt.RNG, n int, deps [][]int, retries []int, mode string, maxCalls int) []Call {
	var calls []Call
	if mode == "canonical" {
		for i := 0; i < n; i++ {
			calls = append(calls, Call{Op: "add", T: i})
		}
		for i := 0; i < n; i++ {
			if retries[i] != 0 {
				calls = append(calls, Call{Op: "retries", T: i, R: retries[i]})
			}
		}
		for i := 0; i < n; i++ {
			if len(deps[i]) > 0 {
				calls = append(calls, Call{Op: "dep", T: i, Deps: append([]int(nil), deps[i]...)})
			}
		}
		return calls
	}
	// permuted / wild
	for i := 0; i < n; i++ {
		if len(deps[i]) == 0 || r.Intn(2) == 0 {
			calls = append(calls, Call{Op: "add", T: i})
		}
		if retries[i] != 0 {
			calls = append(calls, Call{Op: "retries", T: i, R: retries[i]})
			if r.Intn(3) == 0 { // a second value; whichever call comes last after shuffling wins (the model follows the history)
				calls = append(calls, Call{Op: "retries", T: i, R: 1 + r.Intn(3)})
			}
		}
		ds := append([]int(nil), deps[i]...)
		shuffleInts(r, ds)
		for len(ds) > 0 {
			k := 1 + r.Intn(len(ds))
			calls = append(calls, Call{Op: "dep", T: i, Deps: ds[:k:k]})
			ds = ds[k:]
		}
	}
	// random order, then re-adds at random positions
	for i := len(calls) - 1; i > 0; i-- {
		j := r.Intn(i + 1)
		calls[i], calls[j] = calls[j], calls[i]
	}
	nre := r.Intn(3)
	if r.Intn(3) == 0 {
		nre += 1 + r.Intn(3)
	}
	for k := 0; k < nre && len(calls) < maxCalls; k++ {
		c := Call{Op: "add", T: r.Intn(n)}
		if r.Intn(4) == 0 {
			c.Via = "graph"
		}
		pos := r.Intn(len(calls) + 1)
		if c.Via == "graph" {
			// g.Task(id) must find the task: insert after its first mention
			first := -1
			for q, o := range calls {
				if o.T == c.T && (o.Op == "add" || o.Op == "dep" || o.Op == "retries") {
					first = q
					break
				}
				if o.Op == "dep" {
					for _, d := range o.Deps {
						if d == c.T {
							first = q
						}
					}
					if first >= 0 {
						break
					}
				}
			}
			if first < 0 {
				c.Via = ""
			} else {
				pos = first + 1 + r.Intn(len(calls)-first)
			}
		}
		calls = append(calls, Call{})
		copy(calls[pos+1:], calls[pos:])
		calls[pos] = c
	}
	ins := func(c Call) {
		pos := r.Intn(len(calls) + 1)
		calls = append(calls, Call{})
		copy(calls[pos+1:], calls[pos:])
		calls[pos] = c
	}
	// the dependent / retried task obtained from the graph itself (g.Task(id)) instead of the caller's variable
	seen := make([]bool, n)
	for i := range calls {
		c := &calls[i]
		if (c.Op == "dep" || c.Op == "retries") && c.Via == "" {
			if (seen[c.T] && r.Intn(7) == 0) || (mode == "wild" && r.Intn(40) == 0) {
				c.Via = "graph"
			}
		}
		switch c.Op {
		case "add", "dep", "retries":
			seen[c.T] = true
			for _, d := range c.Deps {
				seen[d] = true
			}
		}
	}
	// read-only API calls in the middle of the construction (state reused across calls must not go stale)
	for k := r.Intn(3); k > 0 && r.Intn(2) == 0; k-- {
		ins(Call{Op: []string{"dfs", "dfs", "validate", "string", "validatetm"}[r.Intn(5)]})
	}
	if mode != "wild" {
		return calls
	}
	// cycles: 35 %
	if r.Intn(100) < 35 {
		switch r.Intn(3) {
		case 0: // self edge
			t := r.Intn(n)
			ins(Call{Op: "dep", T: t, Deps: []int{t}})
		default: // back edge: higher id depends on lower id; cyclic iff a path low->...->high exists
			if n >= 2 {
				lo := r.Intn(n - 1)
				hi := lo + 1 + r.Intn(n-lo-1)
				ins(Call{Op: "dep", T: hi, Deps: []int{lo}})
			}
		}
	}
	// definition errors: 25 %
	if r.Intn(100) < 25 {
		switch r.Intn(6) {
		case 5:
			ins(Call{Op: "addtmunknown"})
		case 0:
			ins(Call{Op: "addnil"})
		case 1:
			ins(Call{Op: "addnofn", T: r.Intn(n)})
		case 2:
			ins(Call{Op: "addnoid"})
		case 3:
			ins(Call{Op: "lookup", T: r.Intn(n)}) // an error only if the id is unknown at that point
		case 4: // duplicate edge
			for _, c := range calls {
				if c.Op == "dep" {
					ins(Call{Op: "dep", T: c.T, Deps: []int{c.Deps[0]}})
					break
				}
			}
		}
	}
	return calls
}

func genAttempts(r *simrt.RNG, retries int, faulty bool, faultP int, buffer bool, stall bool) []AttemptSpec {
	var as []AttemptSpec
	for k := 0; k <= retries; k++ {
		a := AttemptSpec{Res: "ok", Dur: []int{0, 1, 1, 2, 5, 40}[r.Intn(6)]}
		if faulty && r.Intn(100) < faultP {
			a.Res = []string{"err", "err", "err", "skip", "skipw"}[r.Intn(5)]
			if a.Res == "skipw" && r.Intn(2) == 0 {
				a.Res = []string{"skipj", "skipm", "skipis"}[r.Intn(3)]
			}
			if r.Intn(10) == 0 {
				a.Res = []string{"errs0", "errs1", "errctx", "errctx", "errsk"}[r.Intn(5)]
			}
		}
		if buffer {
			a.Chunks = []int{0, 1, 2, 3, 5}[r.Intn(5)]
			if r.Intn(12) == 0 {
				a.Big = true
				if a.Chunks < 2 {
					a.Chunks = 2 + r.Intn(2)
				}
			}
		}
		if stall && k == 0 {
			a.Dur = 40 + r.Intn(360)
		}
		as = append(as, a)
		if a.Res == "ok" {
			// later attempts would never run on a correct implementation, but keep them defined
			// (and failing) so that an implementation that retries after success is visible
		}
	}
	return as
}

// Generate draws a scenario for property prop from seed.
func Generate(seed uint64, o GenOpts) *Scenario {
	r := simrt.NewRNG(seed)
	maxN := 8
	if o.Thorough {
		maxN = 12
	}
	sc := &Scenario{Graphs: 1}
	sc.N = 1 + r.Intn(maxN)
	if r.Intn(3) == 0 && sc.N < 4 {
		sc.N = 4 + r.Intn(maxN-3)
	}
	sc.Family = families[r.Intn(len(families))]
	huge := r.Intn(150) == 0
	if huge { // hundreds of quick tasks: whatever only matters beyond some size (buffers, counters, table growth)
		sc.N = 64 + r.Intn(120)
		sc.Family = "forest"
	}
	// a dependency chain a thousand tasks deep: only built, validated and sorted (running it would
	// cost as much as a thousand ordinary scenarios) - what only matters beyond some DEPTH
	deep := !huge && r.Intn(4000) == 0
	if deep {
		huge = true
		sc.N = 1030 + r.Intn(80)
		sc.DFSOnly = true
	}
	sc.ChSeed = r.Uint64()
	sc.Policy, sc.MapBase = genPolicy(r)
	sc.TickNS = tickChoices[r.Intn(len(tickChoices))]

	// property-specific bias (every member stays reachable from every property's check)
	bias := func(p string, pct int) bool { return o.Prop == p && r.Intn(100) < pct }
	switch {
	case bias("C13", 40):
		sc.Family = []string{"chain", "diamond", "diamond", "random"}[r.Intn(4)]
	case bias("C15", 50):
		sc.Family = []string{"flat", "fanout", "fanin", "forest"}[r.Intn(4)]
		if sc.N < 5 {
			sc.N = 5 + r.Intn(maxN-4)
		}
	}
	if huge {
		sc.Family = []string{"forest", "flat", "chain"}[r.Intn(3)]
	}
	if deep {
		sc.Family = "chain"
	}
	deps := genEdges(r, sc.N, sc.Family)

	// configuration
	switch r.Intn(6) {
	case 0, 1:
		sc.MaxPar = 0
	default:
		sc.MaxPar = 1 + r.Intn(4)
		if r.Intn(4) == 0 {
			sc.MaxPar = 1 + r.Intn(sc.N+1)
		}
	}
	sc.Serial = r.Intn(5) == 0
	if o.Prop == "C15" {
		sc.Serial = r.Intn(10) < 3
		if sc.MaxPar == 0 && r.Intn(2) == 0 {
			sc.MaxPar = 1 + r.Intn(4)
		}
	}
	sc.IDScheme = []int{0, 0, 0, 1, 2, 3}[r.Intn(6)]
	if huge {
		sc.IDScheme = 0 // ids that are 200-character prefixes of each other only make sorting slow
	}
	defer func() {
		if huge { // keep the big ones cheap: no 70 KiB outputs, short tasks
			for i := range sc.Tasks {
				for k := range sc.Tasks[i].Attempts {
					a := &sc.Tasks[i].Attempts[k]
					a.Big = false
					if a.Dur > 2 {
						a.Dur = 2
					}
				}
			}
		}
	}()
	sc.UseTaskMap = r.Intn(6) == 0
	sc.UseColor = r.Intn(5) == 0
	if r.Intn(6) == 0 {
		sc.DFSProbe = 2 + r.Intn(2)
	}
	if sc.MaxPar > 0 && r.Intn(4) == 0 {
		sc.MaxParFirst = 1 + r.Intn(5)
	}
	sc.SerialLast = r.Intn(2) == 0
	sc.Buffer = r.Intn(2) == 0
	if sc.Buffer {
		sc.Writer.Yield = r.Intn(4) != 0
		if r.Intn(12) == 0 {
			sc.Writer.ErrFrom = 1 + r.Intn(4)
		} else if r.Intn(12) == 0 {
			sc.Writer.ErrOnly = 1 + r.Intn(4)
		}
		sc.OuterBuf = r.Intn(8) == 0
	}
	if r.Intn(4) == 0 || (o.Prop == "C15" && r.Intn(10) < 3) || (o.Prop == "C16" && r.Intn(10) < 2) {
		sc.Graphs = 2
	}
	if sc.Graphs == 2 && r.Intn(4) == 0 {
		// several graphs: more than one goroutine can be waiting for the same Task at one time
		sc.Graphs = 3
	}
	if o.Prop == "C16" && sc.Graphs >= 2 && r.Intn(2) == 0 {
		// two graphs contending for shared Tasks under tight limits: where a slot or a Task lock held
		// at the wrong moment keeps a ready task from starting
		sc.MaxPar, sc.Serial = 1+r.Intn(2), false
	}
	sc.LogErr = r.Intn(10) == 0
	sc.LogDiscard = !sc.LogErr && r.Intn(8) == 0
	if sc.Buffer && r.Intn(5) == 0 {
		sc.Writer.Locker = []string{"mutex", "noop"}[r.Intn(2)]
	}

	// faults
	faulty := r.Intn(3) != 0
	if o.Prop == "C14" {
		faulty = r.Intn(6) != 0
	}
	faultP := []int{10, 20, 35}[r.Intn(3)]
	stallT := -1
	if r.Intn(8) == 0 {
		stallT = r.Intn(sc.N)
	}
	retries := make([]int, sc.N)
	sc.Tasks = make([]TaskSpec, sc.N)
	for i := 0; i < sc.N; i++ {
		retries[i] = []int{0, 0, 0, 1, 2, 3}[r.Intn(6)]
		sc.Tasks[i].Attempts = genAttempts(r, retries[i], faulty, faultP, sc.Buffer, i == stallT)
		// an extra attempt beyond the declared retries, failing, to expose over-retrying
		extra := AttemptSpec{Res: "err", Dur: 1}
		sc.Tasks[i].Attempts = append(sc.Tasks[i].Attempts, extra)
	}
	// cancellation
	cp := 25
	if o.Prop == "C14" {
		cp = 45
	}
	if o.Prop == "C16" {
		cp = 10
	}
	sc.Cancel.Kind = "none"
	if r.Intn(100) < cp {
		switch r.Intn(10) {
		case 0:
			sc.Cancel.Kind = "before-run"
		case 1:
			sc.Cancel.Kind = "after-run"
		case 2, 3, 4:
			sc.Cancel = CancelSpec{Kind: "sleep", At: r.Intn(14)}
		case 5, 6:
			sc.Cancel = CancelSpec{Kind: "yield", At: r.Intn(60)}
		default:
			t := r.Intn(sc.N)
			k := r.Intn(len(sc.Tasks[t].Attempts) - 1)
			sc.Tasks[t].Attempts[k].Cancel = []string{"entry", "exit"}[r.Intn(2)]
		}
	}

	sc.Cancel.Deadline = r.Intn(3) == 0

	// construction mode
	sc.Mode = "canonical"
	switch o.Prop {
	case "C16":
		switch x := r.Intn(100); {
		case x < 45:
			sc.Mode = "wild"
		case x < 75:
			sc.Mode = "permuted"
		}
	default:
		if r.Intn(100) < 35 {
			sc.Mode = "permuted"
		}
	}
	maxCalls := 30
	sc.Build = buildCalls(r, sc.N, deps, retries, sc.Mode, maxCalls)
	// Run twice: a fault-free first phase, then new tasks (depending on old and new ones), possibly
	// a lower limit, possibly a cycle that passes through an already completed vertex.
	if sc.Graphs == 1 && r.Intn(100) < 12 && sc.N < 12 {
		for i := range sc.Tasks {
			for k := range sc.Tasks[i].Attempts[:len(sc.Tasks[i].Attempts)-1] {
				sc.Tasks[i].Attempts[k].Res = "ok"
				sc.Tasks[i].Attempts[k].Cancel = ""
				if sc.Tasks[i].Attempts[k].Dur > 5 {
					sc.Tasks[i].Attempts[k].Dur = 2
				}
			}
		}
		sc.Cancel.Kind = "none"
		genPhase := func() *Phase2Spec {
			old := sc.N
			nnew := 1 + r.Intn(4)
			if old+nnew > 15 {
				nnew = 15 - old
			}
			if nnew < 1 {
				nnew = 1
			}
			p2 := &Phase2Spec{}
			for j := 0; j < nnew; j++ {
				id := old + j
				ret := []int{0, 0, 1, 2}[r.Intn(4)]
				ts := TaskSpec{Attempts: genAttempts(r, ret, faulty, faultP, sc.Buffer, false)}
				ts.Attempts = append(ts.Attempts, AttemptSpec{Res: "err", Dur: 1})
				sc.Tasks = append(sc.Tasks, ts)
				var ds []int
				for d := 0; d < id; d++ {
					if r.Intn(3) == 0 {
						ds = append(ds, d)
					}
				}
				if len(ds) == 0 || r.Intn(3) == 0 {
					p2.Build = append(p2.Build, Call{Op: "add", T: id})
				}
				if ret != 0 {
					p2.Build = append(p2.Build, Call{Op: "retries", T: id, R: ret})
				}
				if len(ds) > 0 {
					p2.Build = append(p2.Build, Call{Op: "dep", T: id, Deps: ds})
				}
			}
			sc.N = old + nnew
			if r.Intn(4) == 0 {
				p2.MaxPar = 1 + r.Intn(2)
			}
			if r.Intn(4) == 0 {
				t := tickChoices[r.Intn(len(tickChoices))]
				p2.TickNS = &t
			}
			if r.Intn(5) == 0 { // a cycle through a vertex that completed in the first run
				a, c := r.Intn(old), old+r.Intn(nnew)
				p2.Build = append(p2.Build, Call{Op: "dep", T: c, Deps: []int{a}}, Call{Op: "dep", T: a, Deps: []int{c}})
			}
			if r.Intn(3) == 0 { // re-add of an old task and read-only calls in between
				p2.Build = append(p2.Build, Call{Op: "add", T: r.Intn(old)}, Call{Op: "dfs"})
			}

			p2.NewWriter = sc.Buffer && r.Intn(3) == 0
			return p2
		}
		sc.Phase2 = genPhase()
		if r.Intn(100) < 40 && sc.N < 14 {
			sc.Phase3 = genPhase()
		}
	}
	if sc.Graphs == 1 && sc.Cancel.Kind == "none" && r.Intn(100) < 15 {
		sc.Again = true
	}
	if sc.Graphs == 1 && !huge && r.Intn(100) < 8 {
		sc.Inner = &InnerSpec{Host: r.Intn(sc.N), N: 3 + r.Intn(4), MaxPar: 1 + r.Intn(2), SameID: r.Intn(3) == 0}
	}
	// an extreme retry count (the task succeeds early, so it does not run for ever)
	if r.Intn(60) == 0 && sc.Graphs == 1 && sc.Phase2 == nil {
		t := r.Intn(sc.N)
		as := sc.Tasks[t].Attempts
		ok := false
		for k := range as {
			if k < 3 && as[k].Res == "ok" {
				ok = true
			}
		}
		if !ok {
			as[0].Res = "ok"
		}
		sc.Build = append(sc.Build, Call{Op: "retries", T: t, R: int(^uint(0) >> 1)})
	}
	// two graphs: a retry count declared in g0 only
	if sc.Graphs == 2 && r.Intn(100) < 30 {
		for i := range sc.Build {
			if sc.Build[i].Op == "retries" && sc.Build[i].Via == "" && r.Intn(2) == 0 {
				sc.Build[i].Only = 1
			}
		}
	}
	// Two graphs: a shared task may behave differently in g1 (different outcome, duration)
	if sc.Graphs == 2 && r.Intn(100) < 35 {
		for i := range sc.Tasks {
			if r.Intn(3) == 0 {
				sc.Tasks[i].G1 = genAttempts(r, len(sc.Tasks[i].Attempts)-2, true, 40, sc.Buffer, false)
				sc.Tasks[i].G1 = append(sc.Tasks[i].G1, AttemptSpec{Res: "err", Dur: 1})
			}
		}
	}
	// Two graphs: sometimes one id is represented by two distinct *Task objects (same ID and
	// behaviour). g1 is given the alternate object, g0 first the primary one and later, through a
	// re-AddTask, the alternate one: the Task object both graphs end up holding is shared and must
	// never execute twice at once.
	if sc.Graphs == 2 && r.Intn(100) < 35 {
		t := r.Intn(sc.N)
		for i := range sc.Build {
			if sc.Build[i].Op == "add" && sc.Build[i].T == t && sc.Build[i].Via == "" && r.Intn(4) != 0 {
				sc.Build[i].Only = 1
			}
		}
		pos := r.Intn(len(sc.Build) + 1)
		sc.Build = append(sc.Build, Call{})
		copy(sc.Build[pos+1:], sc.Build[pos:])
		sc.Build[pos] = Call{Op: "add", T: t, Alt: true, Only: 2}
		sc.Build = append(sc.Build, Call{Op: "add", T: t, Alt: true, Only: 1})
		if r.Intn(3) == 0 {
			sc.Build = append(sc.Build, Call{Op: "add", T: t, Alt: true, Only: 2})
		}
	}
	// Several graphs: the same two Tasks connected in opposite directions (a needs b in g0, b needs a
	// in g1) - each graph is acyclic on its own
	if sc.Graphs >= 2 && r.Intn(100) < 20 {
		m0, m1 := sc.ModelFor(0), sc.ModelFor(1)
		if m0.DefErrors == 0 && m1.DefErrors == 0 && !m0.Cyclic && !m1.Cyclic {
			for try := 0; try < 6; try++ {
				a, b := r.Intn(sc.N), r.Intn(sc.N)
				if a == b || !m0.Exists[a] || !m0.Exists[b] || reaches(m0, b, a) || reaches(m1, a, b) {
					continue
				}
				sc.Build = append(sc.Build, Call{Op: "dep", T: a, Deps: []int{b}, Only: 1}, Call{Op: "dep", T: b, Deps: []int{a}, Only: 2})
				break
			}
		}
	}
	// tasks that ask their graph for its order, or lower the retry budget of a dependent, while they run
	if r.Intn(8) == 0 {
		for i := range sc.Tasks {
			if r.Intn(2) == 0 {
				for k := range sc.Tasks[i].Attempts {
					sc.Tasks[i].Attempts[k].DFS = true
				}
			}
		}
	}
	if sc.Phase2 == nil && !sc.Again && !sc.Serial && sc.MaxPar > 0 && r.Intn(6) == 0 {
		t := r.Intn(len(sc.Tasks))
		for k := range sc.Tasks[t].Attempts {
			sc.Tasks[t].Attempts[k].SetMaxPar = 1 + r.Intn(4)
		}
	}
	return sc
}

// reaches: in m, does task from (transitively) depend on task to?
func reaches(m *Model, from, to int) bool {
	seen := map[int]bool{}
	var walk func(i int) bool
	walk = func(i int) bool {
		if i == to {
			return true
		}
		if seen[i] {
			return false
		}
		seen[i] = true
		for _, d := range m.Deps[i] {
			if walk(d) {
				return true
			}
		}
		return false
	}
	return walk(from)
}

// ---- small-scope sweep: every labelled DAG on k <= 4 vertices ----

// SweepCount returns how many (graph, config) combinations the sweep enumerates.
func sweepGraphs(k int) [][][]int {
	// edges i -> j only for i < j: every DAG is isomorphic to one of these up to relabelling, and
	// all 2^(k(k-1)/2) edge subsets of the upper triangle are enumerated.
	type pair struct{ i, j int }
	var pairs []pair
	for i := 0; i < k; i++ {
		for j := i + 1; j < k; j++ {
			pairs = append(pairs, pair{i, j})
		}
	}
	var out [][][]int
	for mask := 0; mask < 1<<len(pairs); mask++ {
		deps := make([][]int, k)
		for b, p := range pairs {
			if mask&(1<<b) != 0 {
				deps[p.i] = append(deps[p.i], p.j)
			}
		}
		out = append(out, deps)
	}
	return out
}

var sweepAll = func() [][][]int {
	var all [][][]int
	for k := 1; k <= 4; k++ {
		all = append(all, sweepGraphs(k)...)
	}
	return all
}()

// GenerateSweep enumerates systematically: graph (all upper-triangular DAGs with <= 4 vertices),
// fault assignment (none, every single fault position x kind, sampled doubles), parallelism
// (unset, 1, 2, serial). idx selects the combination; the schedule is still drawn from seed.
// SweepSpace is the number of (graph, parallelism, single-fault) combinations of the sweep.
func SweepSpace() int {
	n := 0
	for _, g := range sweepAll {
		n += 4 * (1 + len(g)*6)
	}
	return n
}

// SweepCombo identifies the (graph, parallelism, single-fault) combination that idx selects.
func SweepCombo(idx uint64) uint64 {
	gi := idx % uint64(len(sweepAll))
	rest := idx / uint64(len(sweepAll))
	par := rest % 4
	f := (rest / 4) % uint64(1+len(sweepAll[gi])*6)
	return gi*1000 + par*100 + f
}

func GenerateSweep(idx uint64, seed uint64, o GenOpts) *Scenario {
	r := simrt.NewRNG(seed)
	g := sweepAll[idx%uint64(len(sweepAll))]
	idx /= uint64(len(sweepAll))
	n := len(g)
	sc := &Scenario{N: n, Graphs: 1, Family: "sweep", Mode: "canonical"}
	sc.ChSeed = r.Uint64()
	sc.Policy, sc.MapBase = genPolicy(r)
	sc.TickNS = tickChoices[r.Intn(len(tickChoices))]
	switch idx % 4 {
	case 1:
		sc.MaxPar = 1
	case 2:
		sc.MaxPar = 2
	case 3:
		sc.Serial = true
	}
	idx /= 4
	kinds := []string{"err", "skip", "skipw", "flaky", "cancel-entry", "cancel-exit"}
	nf := uint64(1 + n*len(kinds)) // 0 = fault free, else single fault (task, kind)
	f := idx % nf
	idx /= nf
	retries := make([]int, n)
	sc.Tasks = make([]TaskSpec, n)
	for i := 0; i < n; i++ {
		sc.Tasks[i].Attempts = []AttemptSpec{{Res: "ok", Dur: []int{0, 1, 1, 2, 5}[r.Intn(5)]}}
	}
	apply := func(t int, kind string) {
		a := &sc.Tasks[t].Attempts[0]
		switch kind {
		case "err", "skip", "skipw":
			a.Res = kind
		case "flaky":
			retries[t] = 1
			a.Res = "err"
			sc.Tasks[t].Attempts = append(sc.Tasks[t].Attempts, AttemptSpec{Res: "ok", Dur: 1})
		case "cancel-entry":
			a.Cancel = "entry"
		case "cancel-exit":
			a.Cancel = "exit"
		}
	}
	if f > 0 {
		f--
		apply(int(f)/len(kinds), kinds[int(f)%len(kinds)])
		if idx%3 == 2 && n > 1 { // sampled double fault
			apply(r.Intn(n), kinds[r.Intn(len(kinds))])
		}
	}
	for i := 0; i < n; i++ {
		sc.Tasks[i].Attempts = append(sc.Tasks[i].Attempts, AttemptSpec{Res: "err", Dur: 1})
	}
	if r.Intn(4) == 0 {
		sc.Cancel = CancelSpec{Kind: "sleep", At: r.Intn(8)}
	} else {
		sc.Cancel.Kind = "none"
	}
	sc.Buffer = r.Intn(3) == 0
	sc.Writer.Yield = sc.Buffer
	if sc.Buffer {
		for i := range sc.Tasks {
			for k := range sc.Tasks[i].Attempts {
				sc.Tasks[i].Attempts[k].Chunks = 1 + r.Intn(3)
			}
		}
	}
	sc.Build = buildCalls(r, n, g, retries, "canonical", 30)
	return sc
}

func sortedInts(m map[int]bool) []int {
	var k []int
	for i := range m {
		k = append(k, i)
	}
	sort.Ints(k)
	return k
}

// dagsim: deterministic simulation of dag.Graph.Run (instrumented copy) with fault injection.
// One process = one worker; the check driver (/verif/bin/check) fans workers out and aggregates.
package main

import (
	"encoding/binary"
	"encoding/json"
	"flag"
	"fmt"
	"os"
	"os/exec"
	"path/filepath"
	"runtime/pprof"
	"sort"
	"strings"
	"time"

	"verif/simrt"
)

var propNum = map[string]uint64{"C13": 13, "C14": 14, "C15": 15, "C16": 16}

type ReplayFile struct {
	Property   string        `json:"property"`
	Oracle     string        `json:"oracle"`
	Message    string        `json:"message"`
	ViolSeq    uint64        `json:"violation_seq"`
	BaseSeed   uint64        `json:"base_seed"`
	RunIndex   uint64        `json:"run_index"`
	RunSeed    uint64        `json:"run_seed"`
	Scenario   *Scenario     `json:"scenario"`
	History    []string      `json:"construction_history"`
	NDecisions int           `json:"n_decisions"`
	NonDefault [][2]string   `json:"non_default_decisions"` // [index, chosen option name]
	EventHash  string        `json:"event_log_hash"`
	FinalSeq   uint64        `json:"final_seq"`
	Verdict    simrt.Verdict `json:"sim_verdict"`
	RunErrs    []string      `json:"run_errors"`
	Original   *Scenario     `json:"original_scenario,omitempty"`
	Trace      []string      `json:"trace_tail,omitempty"`
	Note       string        `json:"note,omitempty"`
	Batch      *BatchSpec    `json:"batch,omitempty"`
}

// BatchSpec describes a replay that must re-execute a worker's whole run sequence: used when the
// code under test keeps process-global state, so that a run depends on the runs before it and the
// minimised single-run replay does not reproduce in a fresh process.
type BatchSpec struct {
	Prop    string `json:"prop"`
	Tier    string `json:"tier"`
	Seed    uint64 `json:"seed"`
	Worker  int    `json:"worker"`
	Workers int    `json:"workers"`
	Index   uint64 `json:"index"`
}

func freshReplay(path string) int {
	cmd := exec.Command(os.Args[0], "-replay", path)
	cmd.Env = os.Environ()
	err := cmd.Run()
	if err == nil {
		return 0
	}
	if ee, ok := err.(*exec.ExitError); ok {
		return ee.ExitCode()
	}
	return 2
}

func decisionsOf(rf *ReplayFile) []string {
	d := make([]string, rf.NDecisions)
	for _, p := range rf.NonDefault {
		var i int
		fmt.Sscanf(p[0], "%d", &i)
		if i >= 0 && i < len(d) {
			d[i] = p[1]
		}
	}
	return d
}

type WorkerOut struct {
	Worker         int                 `json:"worker"`
	Property       string              `json:"property"`
	Runs           int                 `json:"runs"`
	SweepRuns      int                 `json:"sweep_runs"`
	Nontrivial     int                 `json:"nontrivial_runs"`
	Multi          int                 `json:"runs_with_2plus_tasks_in_flight"`
	Steps          int64               `json:"scheduler_steps"`
	SimTimeNS      float64             `json:"simulated_ns"`
	Verdicts       map[string]int      `json:"verdicts"`
	Faults         map[string]int      `json:"faults_fired"`
	FaultRuns      map[string]int      `json:"runs_with_fault"`
	Probes         map[string]int      `json:"probes"`
	Policies       map[string]int      `json:"policies"`
	Modes          map[string]int      `json:"construction_modes"`
	OtherProp      map[string]int      `json:"violations_of_other_properties_seen"`
	FirstIdx       uint64              `json:"first_run_index"`
	LastIdx        uint64              `json:"last_run_index"`
	WallS          float64             `json:"wall_s"`
	Violation      *ReplayFile         `json:"violation,omitempty"`
	ReplayPath     string              `json:"replay_path,omitempty"`
	Known          []string            `json:"known_findings,omitempty"`
	Inconclusive   string              `json:"inconclusive,omitempty"`
	Samples        []json.RawMessage   `json:"samples,omitempty"`
	DistinctFull   int                 `json:"distinct_schedules_this_worker"`
	HashTruncated  bool                `json:"hash_set_truncated"`
	SweepCombos    int                 `json:"sweep_combinations_visited"`
	SweepSpace     int                 `json:"sweep_combinations_total"`
	SweepList      []uint64            `json:"sweep_combination_ids,omitempty"`
	FoundAfterRuns int                 `json:"found_after_runs,omitempty"`
	FoundAfterS    float64             `json:"found_after_s,omitempty"`
	OracleEvals    map[string]int      `json:"oracle_evaluations,omitempty"`
	_              map[string]struct{} `json:"-"`
}

func bump(m map[string]int, k string, n int) { m[k] += n }

func histLines(res *Result) []string {
	var out []string
	for _, e := range res.Trace {
		switch e.Kind {
		case "entry", "exit", "cancel", "run-return", "foreign-fired", "settled", "write-begin":
			out = append(out, fmt.Sprintf("%d %s %s %s %s", e.Seq, e.At, e.G, e.Kind, e.Obj))
		}
	}
	return out
}

func makeReplay(prop string, base, idx, runSeed uint64, f *found, orig *Scenario) *ReplayFile {
	v := firstMatching(f.res, prop, "")
	rf := &ReplayFile{Property: prop, Oracle: v.Oracle, Message: v.Msg, ViolSeq: v.Seq, BaseSeed: base, RunIndex: idx, RunSeed: runSeed,
		Scenario: f.sc, NDecisions: len(f.decisions), EventHash: fmt.Sprintf("%016x", f.res.Hash), FinalSeq: f.res.Seq,
		Verdict: f.res.Verdict, RunErrs: f.res.RunErrs, Original: orig}
	for _, c := range f.sc.Build {
		rf.History = append(rf.History, c.String())
	}
	for i, d := range f.decisions {
		if d != "" {
			rf.NonDefault = append(rf.NonDefault, [2]string{fmt.Sprint(i), d})
		}
	}
	return rf
}

// replay re-executes a replay file; returns the result and whether it reproduced exactly.
func replay(rf *ReplayFile, trace bool) (*Result, bool) {
	rc := &simrt.ReplayChooser{Log: decisionsOf(rf)}
	res := Execute(rf.Scenario, rc, trace)
	v := firstMatching(res, rf.Property, rf.Oracle)
	ok := v != nil && fmt.Sprintf("%016x", res.Hash) == rf.EventHash && res.Seq == rf.FinalSeq
	return res, ok
}

func main() {
	prop := flag.String("prop", "C13", "property id (C13..C16)")
	tier := flag.String("tier", "quick", "quick|thorough")
	seed := flag.Uint64("seed", 1, "base seed (VERIF_SEED)")
	worker := flag.Int("worker", 0, "worker index")
	workers := flag.Int("workers", 1, "number of workers")
	budget := flag.Duration("budget", 10*time.Second, "wall-clock budget")
	maxRuns := flag.Int("maxruns", 0, "stop after this many runs (0 = budget only)")
	out := flag.String("out", "", "write worker result JSON here")
	replayDir := flag.String("replaydir", ".", "directory for replay files")
	replayFile := flag.String("replay", "", "replay this file and exit")
	knownFile := flag.String("known", "", "known_findings.json")
	hashOut := flag.String("hashes", "", "write the set of distinct non-trivial history hashes here")
	merge := flag.String("merge", "", "merge hash files matching this glob and print the union size")
	dumpSeed := flag.Int64("dump", -1, "print the scenario of this run index and exit")
	realRuns := flag.Int("realruns", 0, "real-runtime mode (only when built with -tags passthrough): execute this many scenarios on the real runtime and report oracle disagreements")
	traceIdx := flag.Int64("trace", -1, "execute this run index with a full trace and print it")
	dethash := flag.Int("dethash", 0, "determinism mode: print 'index hash seq' for this many runs and exit")
	replayTest := flag.Int("replaytest", 0, "determinism mode: record N runs, replay each by name, compare event-log hashes")
	skip := flag.Int("skip", 0, "determinism mode: run this many other runs first (batch-position independence)")
	prof := flag.String("cpuprofile", "", "write a CPU profile (development)")
	flag.Parse()
	if *prof != "" {
		if f, err := os.Create(*prof); err == nil {
			pprof.StartCPUProfile(f)
			defer pprof.StopCPUProfile()
		}
	}

	if *merge != "" {
		mergeHashes(*merge)
		return
	}
	if *replayFile != "" {
		os.Exit(doReplay(*replayFile))
	}
	pn, okp := propNum[*prop]
	if !okp {
		fmt.Fprintln(os.Stderr, "unknown property", *prop)
		os.Exit(2)
	}
	opts := GenOpts{Prop: *prop, Thorough: *tier == "thorough"}
	scenarioFor := func(idx uint64) (*Scenario, uint64, bool) {
		rs := simrt.Mix(*seed, pn, idx)
		if simrt.Mix(idx, 77)%4 == 3 { // a quarter of the runs, spread over all workers, enumerate the small-scope sweep
			return GenerateSweep(idx, rs, opts), rs, true
		}
		return Generate(rs, opts), rs, false
	}
	if *dumpSeed >= 0 {
		sc, _, _ := scenarioFor(uint64(*dumpSeed))
		b, _ := json.MarshalIndent(sc, "", " ")
		fmt.Println(string(b))
		return
	}
	if *traceIdx >= 0 {
		sc, _, _ := scenarioFor(uint64(*traceIdx))
		res := Execute(sc, simrt.NewRandomChooser(sc.ChSeed, sc.Policy, false), true)
		for _, e := range res.Trace {
			fmt.Printf("%d %s %s %s %s\n", e.Seq, e.At, e.G, e.Kind, e.Obj)
		}
		fmt.Println("verdict:", res.Verdict, "unfinished:", res.Unfinished, "run errors:", res.RunErrs)
		for _, v := range res.Viol {
			fmt.Println("violation:", v.Prop, v.Oracle, v.Msg)
		}
		return
	}
	if *dethash > 0 {
		for i := 0; i < *skip; i++ {
			sc, _, _ := scenarioFor(uint64(1_000_000 + i))
			Execute(sc, simrt.NewRandomChooser(sc.ChSeed, sc.Policy, false), false)
		}
		for i := 0; i < *dethash; i++ {
			idx := uint64(*worker + i**workers)
			sc, _, _ := scenarioFor(idx)
			res := Execute(sc, simrt.NewRandomChooser(sc.ChSeed, sc.Policy, false), false)
			fmt.Printf("%d %016x %d %016x %s\n", idx, res.Hash, res.Seq, res.HistHash, res.Verdict)
		}
		return
	}
	if *realRuns > 0 {
		if !simrt.RealRuntime {
			fmt.Fprintln(os.Stderr, "-realruns needs a binary built with -tags passthrough")
			os.Exit(2)
		}
		type realOut struct {
			Runs, Disagreements, Hung, Multi int
			Examples                         []string
		}
		var ro realOut
		for i := 0; i < *realRuns; i++ {
			idx := uint64(*worker) + uint64(i)*uint64(*workers)
			sc, _, _ := scenarioFor(idx)
			res := Execute(sc, simrt.NewRandomChooser(sc.ChSeed, sc.Policy, false), false)
			ro.Runs++
			if res.Verdict == simrt.VHung {
				ro.Hung++
			}
			if res.MaxRunning >= 2 {
				ro.Multi++
			}
			for _, v := range res.Viol {
				ro.Disagreements++
				if len(ro.Examples) < 5 {
					ro.Examples = append(ro.Examples, fmt.Sprintf("run %d %s/%s: %s", idx, v.Prop, v.Oracle, v.Msg))
				}
			}
		}
		b, _ := json.Marshal(ro)
		fmt.Println(string(b))
		return
	}
	if *replayTest > 0 {
		bad, dec := 0, 0
		for i := 0; i < *replayTest; i++ {
			sc, _, _ := scenarioFor(uint64(*worker + i**workers))
			c := simrt.NewRandomChooser(sc.ChSeed, sc.Policy, true)
			r1 := Execute(sc, c, false)
			dec += len(c.Log)
			rc := &simrt.ReplayChooser{Log: c.Log}
			r2 := Execute(sc, rc, false)
			if r1.Hash != r2.Hash || r1.Seq != r2.Seq || rc.Miss != 0 {
				bad++
			}
		}
		fmt.Printf("replaytest runs=%d decisions=%d mismatches=%d\n", *replayTest, dec, bad)
		if bad > 0 {
			os.Exit(1)
		}
		return
	}
	known := loadKnown(*knownFile)

	w := &WorkerOut{Worker: *worker, Property: *prop, Verdicts: map[string]int{}, Faults: map[string]int{}, FaultRuns: map[string]int{},
		Probes: map[string]int{}, Policies: map[string]int{}, Modes: map[string]int{}, OtherProp: map[string]int{}}
	t0 := time.Now()
	deadline := t0.Add(*budget)
	hashes := map[uint64]struct{}{}
	full := map[uint64]struct{}{}
	combos := map[uint64]struct{}{}
	const hashCap = 1 << 20
	aborted := 0
	w.FirstIdx = uint64(*worker)
	knownSeen := map[string]bool{}
	for i := 0; ; i++ {
		if *maxRuns > 0 && i >= *maxRuns {
			break
		}
		if i%16 == 0 && time.Now().After(deadline) {
			break
		}
		idx := uint64(*worker) + uint64(i)*uint64(*workers)
		sc, rs, sweep := scenarioFor(idx)
		ch := simrt.NewRandomChooser(sc.ChSeed, sc.Policy, false)
		res := Execute(sc, ch, false)
		w.Runs++
		w.LastIdx = idx
		if sweep {
			w.SweepRuns++
			combos[SweepCombo(idx)] = struct{}{}
		}
		w.Steps += int64(res.Steps)
		w.SimTimeNS += float64(res.SimTime)
		w.Verdicts[string(res.Verdict)]++
		w.Policies[sc.Policy.Kind+"/map:"+sc.Policy.MapMode]++
		w.Modes[sc.Mode]++
		for k, v := range res.Faults {
			w.Faults[k] += v
			w.FaultRuns[k]++
		}
		for k, v := range res.Probes {
			w.Probes[k] += v
		}
		if res.MaxRunning >= 2 {
			w.Multi++
		}
		if res.Nontrivial {
			w.Nontrivial++
			if len(hashes) < hashCap {
				hashes[res.HistHash] = struct{}{}
			} else {
				w.HashTruncated = true
			}
		}
		if len(full) < hashCap {
			full[res.Hash] = struct{}{}
		}
		if res.Verdict == simrt.VHung || (res.Verdict == simrt.VPanic && strings.HasPrefix(res.PanicMsg, "simrt:")) {
			w.Inconclusive = fmt.Sprintf("run %d: %s %s", idx, res.Verdict, firstLine(res.PanicMsg))
			break
		}
		if res.Verdict != simrt.VOK {
			aborted++
		}
		if len(w.Samples) < 2 && res.Nontrivial && res.Verdict == simrt.VOK && i >= 3 {
			// re-run with a trace to write the sample out (deterministic, so it is the same run)
			r2 := Execute(sc, simrt.NewRandomChooser(sc.ChSeed, sc.Policy, false), true)
			var hist []string
			for _, c := range sc.Build {
				hist = append(hist, c.String())
			}
			s := map[string]interface{}{"run_index": idx, "run_seed": rs, "construction_history": hist, "config": map[string]interface{}{
				"graphs": sc.Graphs, "serial": sc.Serial, "max_parallel": sc.MaxPar, "buffer": sc.Buffer, "tick_ns": sc.TickNS, "cancel": sc.Cancel, "policy": sc.Policy, "map_base": sc.MapBase},
				"task_level_history": histLines(r2), "scheduler_steps": r2.Steps, "run_errors": r2.RunErrs, "faults": r2.Faults}
			b, _ := json.Marshal(s)
			w.Samples = append(w.Samples, b)
		}
		var mine *Violation
		for vi := range res.Viol {
			v := &res.Viol[vi]
			if v.Prop == *prop {
				if mine == nil {
					mine = v
				}
			} else {
				w.OtherProp[v.Prop+"/"+v.Oracle]++
			}
		}
		if mine != nil {
			w.FoundAfterRuns, w.FoundAfterS = w.Runs, time.Since(t0).Seconds()
			// reproduce with recording, minimise, classify
			c := simrt.NewRandomChooser(sc.ChSeed, sc.Policy, true)
			r2 := Execute(sc, c, false)
			if firstMatching(r2, *prop, mine.Oracle) == nil || r2.Hash != res.Hash {
				w.Inconclusive = fmt.Sprintf("run %d: violation %s did not reproduce on immediate re-execution (determinism broken)", idx, mine.Oracle)
				break
			}
			f := Shrink(&found{sc, c.Log, r2}, *prop, mine.Oracle, 25*time.Second)
			if kf := matchKnown(known, *prop, f); kf != nil {
				if !knownSeen[kf.ID] {
					knownSeen[kf.ID] = true
					w.Known = append(w.Known, fmt.Sprintf("property=%s %s [%s]", *prop, kf.What, kf.ID))
				}
				w.Probes["known_finding_hits"]++
				deadline = deadline.Add(0)
				continue
			}
			rf := makeReplay(*prop, *seed, idx, rs, f, sc)
			// a replay file must reproduce in a fresh execution
			r3, ok := replay(rf, true)
			if !ok {
				w.Inconclusive = fmt.Sprintf("run %d: minimised replay did not reproduce", idx)
				break
			}
			tl := histLines(r3)
			if len(tl) > 60 {
				tl = tl[len(tl)-60:]
			}
			rf.Trace = tl
			path := filepath.Join(*replayDir, fmt.Sprintf("%s-%d-%d.json", *prop, *seed, idx))
			b, _ := json.MarshalIndent(rf, "", " ")
			os.MkdirAll(*replayDir, 0o755)
			os.WriteFile(path, b, 0o644)
			if freshReplay(path) != 1 {
				// The minimised run reproduces in this process but not in a fresh one: the code under
				// test carries state from one Run to the next. Fall back to replaying this worker's
				// whole sequence up to the failing run.
				orig := makeReplay(*prop, *seed, idx, rs, &found{sc, nil, r2}, nil)
				orig.NDecisions, orig.NonDefault = 0, nil
				orig.Batch = &BatchSpec{Prop: *prop, Tier: *tier, Seed: *seed, Worker: *worker, Workers: *workers, Index: idx}
				orig.Note = "batch replay: the violation depends on process state left behind by earlier runs (the minimised single-run replay did not reproduce in a fresh process); replaying re-executes runs " + fmt.Sprint(*worker) + ", " + fmt.Sprint(*worker+*workers) + ", ... up to the failing index"
				b, _ := json.MarshalIndent(orig, "", " ")
				os.WriteFile(path, b, 0o644)
				if freshReplay(path) != 1 {
					w.Inconclusive = fmt.Sprintf("run %d: violation %s reproduces neither as a single run nor as a batch in a fresh process", idx, mine.Oracle)
					break
				}
				rf = orig
			}
			w.Violation = rf
			w.ReplayPath = path
			break
		}
		if aborted >= 1000 {
			break // recycle: leaked goroutines of aborted runs accumulate; the driver restarts workers
		}
	}
	w.WallS = time.Since(t0).Seconds()
	w.DistinctFull = len(full)
	w.SweepCombos, w.SweepSpace = len(combos), SweepSpace()
	for c := range combos { // order irrelevant: the driver builds a set
		w.SweepList = append(w.SweepList, c)
	}
	sort.Slice(w.SweepList, func(i, j int) bool { return w.SweepList[i] < w.SweepList[j] })
	if *hashOut != "" {
		hs := make([]uint64, 0, len(hashes))
		for h := range hashes {
			hs = append(hs, h)
		}
		sort.Slice(hs, func(i, j int) bool { return hs[i] < hs[j] })
		buf := make([]byte, 8*len(hs))
		for i, h := range hs {
			binary.LittleEndian.PutUint64(buf[8*i:], h)
		}
		os.WriteFile(*hashOut, buf, 0o644)
	}
	b, _ := json.MarshalIndent(w, "", " ")
	if *out != "" {
		os.WriteFile(*out, b, 0o644)
	} else {
		fmt.Println(string(b))
	}
	if w.Inconclusive != "" {
		fmt.Fprintln(os.Stderr, "INCONCLUSIVE:", w.Inconclusive)
		os.Exit(2)
	}
	if w.Violation != nil {
		os.Exit(1)
	}
}

func firstLine(s string) string {
	if i := strings.Index(s, "\n"); i >= 0 {
		return s[:i]
	}
	return s
}

func doReplay(path string) int {
	b, err := os.ReadFile(path)
	if err != nil {
		fmt.Fprintln(os.Stderr, err)
		return 2
	}
	var rf ReplayFile
	if err := json.Unmarshal(b, &rf); err != nil {
		fmt.Fprintln(os.Stderr, "bad replay file:", err)
		return 2
	}
	if rf.Batch != nil {
		return doBatchReplay(path, &rf)
	}
	res, ok := replay(&rf, true)
	fmt.Printf("replaying %s: property=%s oracle=%s\n", path, rf.Property, rf.Oracle)
	for _, c := range rf.History {
		fmt.Println("  build:", c)
	}
	for _, l := range histLines(res) {
		fmt.Println("  ", l)
	}
	for _, v := range res.Viol {
		fmt.Printf("  violation %s/%s at seq %d: %s\n", v.Prop, v.Oracle, v.Seq, v.Msg)
	}
	fmt.Printf("  sim verdict=%s event-log hash=%016x (recorded %s) final seq=%d (recorded %d)\n", res.Verdict, res.Hash, rf.EventHash, res.Seq, rf.FinalSeq)
	if ok {
		fmt.Printf("VIOLATION property=%s replay=%s\n", rf.Property, path)
		return 1
	}
	if firstMatching(res, rf.Property, rf.Oracle) == nil {
		fmt.Println("replay does not violate the property on this tree (the recorded violation is gone)")
		return 0
	}
	fmt.Println("REPLAY DIVERGED: the violation fires but the event log differs from the recorded one")
	return 2
}

func mergeHashes(glob string) {
	files, _ := filepath.Glob(glob)
	var all []uint64
	for _, f := range files {
		b, err := os.ReadFile(f)
		if err != nil {
			continue
		}
		for i := 0; i+8 <= len(b); i += 8 {
			all = append(all, binary.LittleEndian.Uint64(b[i:]))
		}
	}
	sort.Slice(all, func(i, j int) bool { return all[i] < all[j] })
	n := 0
	for i, h := range all {
		if i == 0 || h != all[i-1] {
			n++
		}
	}
	fmt.Println(n)
}

func doBatchReplay(path string, rf *ReplayFile) int {
	b := rf.Batch
	opts := GenOpts{Prop: b.Prop, Thorough: b.Tier == "thorough"}
	fmt.Printf("batch-replaying %s: property=%s oracle=%s worker %d of %d up to run index %d\n", path, rf.Property, rf.Oracle, b.Worker, b.Workers, b.Index)
	for i := 0; ; i++ {
		idx := uint64(b.Worker) + uint64(i)*uint64(b.Workers)
		if idx > b.Index {
			break
		}
		rs := simrt.Mix(b.Seed, propNum[b.Prop], idx)
		var sc *Scenario
		if simrt.Mix(idx, 77)%4 == 3 {
			sc = GenerateSweep(idx, rs, opts)
		} else {
			sc = Generate(rs, opts)
		}
		res := Execute(sc, simrt.NewRandomChooser(sc.ChSeed, sc.Policy, false), false)
		if idx == b.Index {
			if v := firstMatching(res, rf.Property, rf.Oracle); v != nil {
				fmt.Printf("  violation %s/%s at seq %d: %s\n", v.Prop, v.Oracle, v.Seq, v.Msg)
				fmt.Printf("VIOLATION property=%s replay=%s\n", rf.Property, path)
				return 1
			}
		}
	}
	fmt.Println("the batch does not violate the property on this tree (the recorded violation is gone)")
	return 0
}

// mapsim: C20 - the same definition and input must give the same result and the same text under
// every map iteration order (and on repetition). The instrumented copy of getoptions draws every
// `range` over a map from simrt.MapKeys, so the iteration order is an input chosen by the seed.
package main

import (
	"bytes"
	"context"
	"encoding/binary"
	"encoding/json"
	"errors"
	"flag"
	"fmt"
	"os"
	"os/exec"
	"path/filepath"
	"runtime/pprof"
	"sort"
	"strings"
	"time"

	"github.com/DavidGamba/go-getoptions"
	"verif/simrt"
)

// Order is one map-iteration-order schedule.
type Order struct {
	Base string `json:"base"`           // asc | desc | rot | shuffle
	Seed uint64 `json:"seed,omitempty"` // shuffle: chooser seed
}

func (o Order) String() string {
	if o.Base == "shuffle" {
		return fmt.Sprintf("shuffle(%d)", o.Seed)
	}
	return o.Base
}

type obsStats struct {
	mapDecisions, mapNonSorted int
	slowCallbacks              int
}

// cbDelay is the simulated time every callback of the program (value/argument completion functions,
// command functions) takes in the current execution: how long the program's own code runs is not part of
// "definition, arguments and environment", so the result must not depend on it. Chosen per execution
// from the order descriptor; never a real sleep (off under the real runtime).
var cbDelay time.Duration
var cbSlow *int

var cbDelays = [...]time.Duration{0, time.Microsecond, 20 * time.Millisecond, 400 * time.Millisecond, 3 * time.Second, 2 * time.Minute, 5 * time.Hour}

func delayFor(ord Order) time.Duration {
	switch ord.Base {
	case "asc":
		return 0
	case "desc":
		return cbDelays[4]
	case "rot":
		return cbDelays[3]
	}
	return cbDelays[(ord.Seed>>7)%uint64(len(cbDelays))]
}

func userLatency() {
	if cbDelay > 0 && !simrt.RealRuntime {
		simrt.Sleep(cbDelay)
		if cbSlow != nil {
			*cbSlow++
		}
	}
}

// callLog collects, per execution, the calls the library makes into the program's completion
// callbacks (which callback, with which arguments, in which order): part of the observable result.
var callLog *strings.Builder

// descStyle is the description style of the scenario being executed (Scenario.DescStyle).
var descStyle int

func describe(s string) string {
	switch descStyle {
	case 1:
		return s + "\n\tsecond line, indented with a tab\nthird line"
	case 2:
		return s + " 100% %s %d %v %[1]q"
	case 3:
		return s + strings.Repeat(" and a very long explanation that goes on", 6)
	}
	return s
}

// reparseProbe (off; VERIF_REPARSE=1 turns it on): also Parse+Dispatch a second time on the same object.
// On the pinned code a GetOpt object is single-use - a second Parse appends to the remaining arguments of the
// first - so C20 ("two runs of the same definition") is read as "two freshly built objects"; DESIGN §14.3.
var reparseProbe = os.Getenv("VERIF_REPARSE") == "1"

// sharedVars holds, per execution and per node, the variables that several StringVar options of
// that node store into.
var sharedVars map[*getoptions.GetOpt]*[3]string

func define(o *getoptions.GetOpt, d OptDef) {
	var fns []getoptions.ModifyFn
	if d.SuggFn {
		name := d.Name
		fns = append(fns, o.SuggestedValuesFn(func(target string, partial string) []string {
			userLatency()
			if callLog != nil {
				fmt.Fprintf(callLog, "[valuefn %s target=%s partial=%q]", name, target, partial)
			}
			return []string{"fnval-b", "fnval-a", partial + "x", "fnval-a"}
		}))
	}
	if len(d.Aliases) > 0 {
		fns = append(fns, o.Alias(d.Aliases...))
	}
	switch d.Required {
	case 1:
		fns = append(fns, o.Required())
	case 2:
		fns = append(fns, o.Required("need "+d.Name))
	}
	if d.Valid != nil && d.Suggested != nil && callerTables != nil {
		// the program keeps its levels in one table and hands a part of it to the option
		fns = append(fns, o.ValidValues(callerTable(d)[:len(d.Valid)]...))
	} else if d.Valid != nil {
		fns = append(fns, o.ValidValues(d.Valid...))
	}
	if d.Suggested != nil {
		fns = append(fns, o.SuggestedValues(d.Suggested...))
	}
	if d.Env != "" {
		fns = append(fns, o.GetEnv(d.Env))
	}
	if d.ArgName != "" {
		fns = append(fns, o.ArgName(d.ArgName))
	}
	fns = append(fns, o.Description(describe("desc of "+d.Name)))
	switch d.Kind {
	case 0:
		o.Bool(d.Name, false, fns...)
	case 1:
		o.Increment(d.Name, 0, fns...)
	case 2:
		o.String(d.Name, "def", fns...)
	case 3:
		o.Int(d.Name, 7, fns...)
	case 4:
		o.Float64(d.Name, 1.5, fns...)
	case 5:
		o.StringOptional(d.Name, "def", fns...)
	case 6:
		o.IntOptional(d.Name, 7, fns...)
	case 7:
		o.Float64Optional(d.Name, 1.5, fns...)
	case 8:
		o.StringSlice(d.Name, d.Min, d.Max, fns...)
	case 9:
		o.IntSlice(d.Name, d.Min, d.Max, fns...)
	case 10:
		o.Float64Slice(d.Name, d.Min, d.Max, fns...)
	case 11:
		o.StringMap(d.Name, d.Min, d.Max, fns...)
	case 12: // the program's own map already holds entries when the option is declared
		mv := map[string]string{"zeta": "26", "alpha": "1", "mid": "13", "beta": "2", "Accept": "text", "ACCEPT": "any"}
		o.StringMapVar(&mv, d.Name, d.Min, d.Max, fns...)
	case 13:
		sv := []string{"pre1", "pre2", "pre3"}
		o.StringSliceVar(&sv, d.Name, d.Min, d.Max, fns...)
	case 14:
		if d.ShareVar > 0 && sharedVars != nil {
			if sharedVars[o] == nil {
				sharedVars[o] = &[3]string{}
			}
			o.StringVar(&sharedVars[o][d.ShareVar], d.Name, "vardef", fns...)
		} else {
			var v string
			o.StringVar(&v, d.Name, "vardef", fns...)
		}
	}
}

// callerTables: tables owned by the program (package-level variables in a real one), which survive
// from one execution of the definition to the next; the library is handed sub-slices of them.
var callerTables map[string][]string

func callerTable(d OptDef) []string {
	t, ok := callerTables[d.Name]
	if !ok {
		t = append(append(make([]string, 0, len(d.Valid)+2), d.Valid...), "spare-1", "spare-2")
		callerTables[d.Name] = t
	}
	return t
}

func sortedKeys(m map[string][]string) []string {
	ks := make([]string, 0, len(m))
	for k := range m {
		ks = append(ks, k)
	}
	sort.Strings(ks)
	return ks
}

func forEachOpt(c *CmdDef, f func(d OptDef)) {
	for _, d := range c.Opts {
		f(d)
	}
	for _, d := range c.LateOpts {
		f(d)
	}
	for i := range c.Subs {
		forEachOpt(&c.Subs[i], f)
	}
}

type node struct {
	path string
	opt  *getoptions.GetOpt
	def  *CmdDef
}

func build(o *getoptions.GetOpt, c *CmdDef, path string, ran *string, nodes *[]node) {
	if c.SelfName != "" && path != "prog" {
		o.Self(c.SelfName, "self description of "+c.Name)
	}
	if c.Unset {
		o.UnsetOptions()
	}
	if c.Lower && path != "prog" {
		o.SetMapKeysToLower()
	}
	if c.RequireOrder {
		o.SetRequireOrder()
	}
	if c.Unknown > 0 {
		o.SetUnknownMode(getoptions.UnknownMode(c.Unknown - 1))
	}
	for _, d := range c.Opts {
		define(o, d)
	}
	if len(c.ArgComp) > 0 {
		o.ArgCompletions(c.ArgComp...)
	}
	for k := 0; k < c.ArgCompFns; k++ {
		k, p := k, path
		o.ArgCompletionsFns(func(target string, prev []string, partial string) []string {
			userLatency()
			if callLog != nil {
				fmt.Fprintf(callLog, "[argfn %s#%d target=%s prev=%q partial=%q]", p, k, target, prev, partial)
			}
			if c.ArgCompOwned && k == 0 && callerTables != nil {
				// the program answers from a table of its own, the same slice every time
				t, ok := callerTables["argfn "+p]
				if !ok {
					t = []string{"solo"}
					callerTables["argfn "+p] = t
				}
				return t
			}
			if c.ArgCompPanic && k == c.ArgCompFns-1 {
				var m map[string]int
				m[partial] = 1 // the program's own bug: assignment to entry in nil map
			}
			return []string{"fnarg-" + fmt.Sprint(k), "fnarg-common", "apple"}
		})
	}
	for i, s := range c.Synopsis {
		desc := "about " + s
		if i == 0 {
			desc = "about " + s + "\nsecond line of the description\nthird line"
		}
		o.HelpSynopsisArg(s, desc)
	}
	if c.Fn {
		name := path
		o.SetCommandFn(func(ctx context.Context, op *getoptions.GetOpt, args []string) error {
			userLatency()
			*ran += fmt.Sprintf("ran %s args=%q ctx=%v;", name, args, ctx.Err())
			if fnCancel != nil {
				fnCancel()
			}
			if fnErr {
				return fmt.Errorf("%s: cleanup failed", name)
			}
			return nil
		})
	}
	*nodes = append(*nodes, node{path, o, c})
	for i := range c.Subs {
		s := &c.Subs[i]
		build(o.NewCommand(s.Name, describe("about "+s.Name)), s, path+"/"+s.Name, ran, nodes)
	}
	for _, d := range c.LateOpts {
		define(o, d)
	}
}

// what the command functions of the scenario under observation do besides recording that they ran
var (
	fnCancel context.CancelFunc
	fnErr    bool
)

// showValue prints an option value; very long ones (a range of 40000 integers) by length and digest.
func showValue(v interface{}) string {
	s := fmt.Sprint(v)
	if len(s) <= 2048 {
		return s
	}
	h := uint64(14695981039346656037)
	for i := 0; i < len(s); i++ {
		h = (h ^ uint64(s[i])) * 1099511628211
	}
	return fmt.Sprintf("%s...(%d bytes, fnv %x)", s[:64], len(s), h)
}

func errClass(err error) string {
	if err == nil {
		return "nil"
	}
	var cls []string
	if errors.Is(err, getoptions.ErrorHelpCalled) {
		cls = append(cls, "HelpCalled")
	}
	if errors.Is(err, getoptions.ErrorParsing) {
		cls = append(cls, "Parsing")
	}
	if errors.Is(err, getoptions.ErrorNotFound) {
		cls = append(cls, "NotFound")
	}
	return fmt.Sprintf("%q%v", err.Error(), cls)
}

// observe executes the scenario once on a freshly built GetOpt under one iteration-order schedule
// and serialises every observable canonically (one labelled line per observable).
func observe(sc *Scenario, ord Order, st *obsStats) (out string) {
	return observeArgv(sc, ord, st, nil)
}

// observeArgv: shared != nil makes Parse receive that very slice (the caller's own argv, reused
// between executions); otherwise every execution gets a fresh copy.
func observeArgv(sc *Scenario, ord Order, st *obsStats, shared []string) (out string) {
	pol := simrt.Policy{Kind: "uniform", MapMode: ord.Base}
	// goroutines the code under test may start are scheduled differently from execution to execution:
	// uniformly at every step, or with the running goroutine usually keeping the processor (with many
	// preemption points - the comparisons of a sort - a uniform scheduler lets the other goroutine
	// overtake almost surely, which would make a race look deterministic)
	switch {
	case ord.Base == "desc" || (ord.Base == "shuffle" && ord.Seed%3 == 1):
		pol.Kind, pol.Sticky = "sticky", 0.97
	case ord.Base == "rot" || (ord.Base == "shuffle" && ord.Seed%3 == 2):
		pol.Kind, pol.Sticky = "sticky", 0.8
	}
	ch := simrt.NewRandomChooser(ord.Seed, pol, false)
	base := ord.Base
	if base == "shuffle" {
		base = "asc"
	}
	var b strings.Builder
	cbDelay, cbSlow = delayFor(ord), nil
	if st != nil {
		cbSlow = &st.slowCallbacks
	}
	defer func() { cbDelay, cbSlow = 0, nil }()
	sim := simrt.Run(simrt.Config{Chooser: ch, MapBase: base, KeepGlobals: true}, func() {
		defer func() {
			if p := recover(); p != nil {
				fmt.Fprintf(&b, "PANIC %v\n", p)
			}
		}()
		// the environment is a set: the order in which the variables were exported is not part of it
		envOrder := append([][2]string(nil), sc.Env...)
		if ord.Base == "desc" || (ord.Base == "shuffle" && ord.Seed%2 == 1) {
			for i, j := 0, len(envOrder)-1; i < j; i, j = i+1, j-1 {
				envOrder[i], envOrder[j] = envOrder[j], envOrder[i]
			}
		}
		for _, kv := range envOrder {
			os.Setenv(kv[0], kv[1])
		}
		if sc.SelfEmpty {
			// a multi-call binary: the executable name differs from program to program
			old := os.Args[0]
			os.Args[0] = fmt.Sprintf("/opt/bin/applet%d", scenarioHash(sc)%7)
			defer func() { os.Args[0] = old }()
		}
		defer func() {
			for _, kv := range sc.Env {
				os.Unsetenv(kv[0])
			}
			os.Unsetenv("COMP_LINE")
			os.Unsetenv("ZSHELL")
		}()
		// executions are independent of each other: the order in which the three requests are served
		// within one execution is not part of the input either
		modes := []string{"parse", "bash", "zsh", "bare"}
		if ord.Base == "rot" || (ord.Base == "shuffle" && ord.Seed%3 == 2) {
			modes = []string{"bare", "zsh", "parse", "bash"}
		}
		if callerTables == nil {
			callerTables = map[string][]string{}
			defer func() { callerTables = nil }()
		}
		// what the program's own tables hold when this execution starts
		forEachOpt(&sc.Root, func(d OptDef) {
			if d.Valid != nil && d.Suggested != nil {
				fmt.Fprintf(&b, "caller-table %s=%q\n", d.Name, callerTable(d))
			}
		})
		var ownedTables func(c *CmdDef, path string)
		ownedTables = func(c *CmdDef, path string) {
			if c.ArgCompOwned && c.ArgCompFns > 0 {
				if _, ok := callerTables["argfn "+path]; !ok {
					callerTables["argfn "+path] = []string{"solo"}
				}
			}
			for i := range c.Subs {
				ownedTables(&c.Subs[i], path+"/"+c.Subs[i].Name)
			}
		}
		ownedTables(&sc.Root, "prog")
		for _, k := range sortedKeys(callerTables) {
			if strings.HasPrefix(k, "argfn ") {
				fmt.Fprintf(&b, "caller-table %s=%q\n", k, callerTables[k])
			}
		}
		parts := map[string]*strings.Builder{}
		prevMode := ""
		defer func() {
			for _, mode := range []string{"parse", "bash", "zsh", "bare"} {
				if pb := parts[mode]; pb != nil {
					b.WriteString(pb.String())
				}
			}
		}()
		for _, mode := range modes {
			pb := &strings.Builder{}
			parts[mode] = pb
			var w, cw bytes.Buffer
			oldW := getoptions.Writer
			getoptions.Writer = &w
			var devnull *os.File
			if writerIsDevice {
				if f, err := os.OpenFile(os.DevNull, os.O_WRONLY, 0); err == nil {
					devnull = f
					getoptions.Writer = f
				}
			}
			oldCW := getoptions.VerifSetCompletionWriter(&cw)
			exit := -1
			oldExit := getoptions.VerifSetExit(func(c int) { exit = c })
			// the environment is a set: which of the two was exported first is not part of it
			zfirst := mode == "zsh" && (ord.Base == "desc" || (ord.Base == "shuffle" && ord.Seed%2 == 1))
			if mode == "zsh" && prevMode == "bash" && !zfirst {
				// the request of the previous step is still exported (the program did not touch its
				// environment, and the library has no business doing so): only the shell flavour is added
				os.Setenv("ZSHELL", "true")
			} else {
				os.Unsetenv("COMP_LINE")
				os.Unsetenv("ZSHELL")
				if mode == "bash" || mode == "zsh" {
					if zfirst {
						os.Setenv("ZSHELL", "true")
					}
					os.Setenv("COMP_LINE", sc.CompLine)
					if mode == "zsh" && !zfirst {
						os.Setenv("ZSHELL", "true")
					}
				}
			}
			prevMode = mode
			func() {
				defer func() {
					// a panic (the library's, or a callback of the program) ends this request only
					if p := recover(); p != nil {
						fmt.Fprintf(pb, "%s.PANIC %v\n", mode, p)
					}
					if devnull != nil {
						devnull.Close()
					}
					getoptions.Writer = oldW
					getoptions.VerifSetCompletionWriter(oldCW)
					getoptions.VerifSetExit(oldExit)
				}()
				opt := getoptions.New()
				if sc.SelfEmpty {
					opt.Self("", "a program")
				} else {
					opt.Self("prog", "a program")
				}
				opt.SetMode(getoptions.Mode(sc.Mode))
				opt.SetUnknownMode(getoptions.UnknownMode(sc.Unknown))
				if sc.Lower {
					opt.SetMapKeysToLower()
				}
				ran := ""
				descStyle = sc.DescStyle
				sharedVars = map[*getoptions.GetOpt]*[3]string{}
				defer func() { sharedVars = nil }()
				var calls strings.Builder
				callLog = &calls
				defer func() { callLog = nil }()
				var nodes []node
				build(opt, &sc.Root, "prog", &ran, &nodes)
				if sc.Help {
					hn := "help"
					if sc.HelpName != "" {
						hn = sc.HelpName
					}
					if sc.HelpAlias {
						opt.HelpCommand(hn, opt.Alias("?"))
					} else {
						opt.HelpCommand(hn)
					}
				}
				argv := sc.Argv
				if mode == "bare" {
					// the same definition run with no arguments at all: what it sees must not depend on
					// whether the run with arguments came before or after it
					argv = nil
				}
				if mode == "bash" || mode == "zsh" {
					// bash calls the completion program with: command, word being completed, previous word
					parts := strings.Split(sc.CompLine, " ")
					cur, prev := parts[len(parts)-1], "prog"
					if len(parts) >= 2 {
						prev = parts[len(parts)-2]
					}
					argv = []string{"prog", cur, prev}
				}
				in := append([]string(nil), argv...)
				if mode == "parse" && shared != nil {
					in = shared
				}
				rem, err := opt.Parse(in)
				fmt.Fprintf(pb, "%s.remaining=%q\n%s.error=%s\n%s.exit=%d\n%s.completions=%q\n", mode, rem, mode, errClass(err), mode, exit, mode, cw.String())
				if mode == "bare" {
					for _, n := range nodes {
						for _, d := range append(append([]OptDef(nil), n.def.Opts...), n.def.LateOpts...) {
							fmt.Fprintf(pb, "bare-value %s --%s=%s called=%v\n", n.path, d.Name, showValue(n.opt.Value(d.Name)), n.opt.Called(d.Name))
						}
					}
				}
				if mode == "parse" {
					for _, n := range nodes {
						all := append(append([]OptDef(nil), n.def.Opts...), n.def.LateOpts...)
						for _, d := range all {
							fmt.Fprintf(pb, "value %s --%s=%s called=%v as=%q\n", n.path, d.Name, showValue(n.opt.Value(d.Name)), n.opt.Called(d.Name), n.opt.CalledAs(d.Name))
						}
						// asking for names that were not declared (here: proper prefixes of declared ones)
						for i, d := range all {
							if i < 3 && len(d.Name) >= 2 {
								q := d.Name[:1+len(d.Name)/2]
								if q != d.Name {
									fmt.Fprintf(pb, "query %s %q: value=%s called=%v as=%q\n", n.path, q, showValue(n.opt.Value(q)), n.opt.Called(q), n.opt.CalledAs(q))
								}
							}
						}
					}
					for _, n := range nodes {
						if sv := sharedVars[n.opt]; sv != nil {
							fmt.Fprintf(pb, "shared-vars %s=%q\n", n.path, sv[1:])
						}
					}
					// the results belong to the program: it may go on and edit them in place
					for _, n := range nodes {
						for _, d := range append(append([]OptDef(nil), n.def.Opts...), n.def.LateOpts...) {
							switch v := n.opt.Value(d.Name).(type) {
							case []int:
								for i := range v {
									v[i] = -7000 - i
								}
							case []string:
								for i := range v {
									v[i] = "edited by the program"
								}
							case []float64:
								for i := range v {
									v[i] = -0.5
								}
							case map[string]string:
								for k := range v {
									v[k] = "edited by the program"
								}
							}
						}
					}
					if err == nil {
						var rw bytes.Buffer
						getoptions.Writer = &rw
						a1, rest, e1 := opt.GetRequiredArg(rem)
						_, _, e2 := opt.GetRequiredArgInt(rest)
						fmt.Fprintf(pb, "required-arg=%q %s %s writer=%q\n", a1, errClass(e1), errClass(e2), rw.String())
						getoptions.Writer = &w
						if sc.NoDispatch {
							// a program that looks at its arguments itself and never calls Dispatch
							fmt.Fprintf(pb, "dispatch.error=not-called\ndispatch.ran=\n")
						} else {
							func() {
								// the context the program hands to Dispatch is part of the input
								dctx, dcancel := context.Background(), context.CancelFunc(func() {})
								switch sc.Ctx {
								case "cancelled":
									dctx, dcancel = context.WithCancel(dctx)
									dcancel()
								case "fn":
									dctx, dcancel = context.WithCancel(dctx)
									fnCancel = dcancel
								case "deadline":
									dctx, dcancel = context.WithDeadline(dctx, time.Unix(0, 0))
								}
								fnErr = sc.FnErr
								derr := opt.Dispatch(dctx, rem)
								fmt.Fprintf(pb, "dispatch.error=%s\ndispatch.ran=%s\n", errClass(derr), ran)
								fnCancel, fnErr = nil, false
								dcancel()
								if reparseProbe {
									// the same object parses the same arguments again: which command is selected and what
									// is left over must not depend on the previous Parse/Dispatch
									ran1 := ran
									ran = ""
									rem2, err2 := opt.Parse(append([]string(nil), argv...))
									if err2 == nil {
										opt.Dispatch(context.Background(), rem2)
									}
									if fmt.Sprint(rem2) != fmt.Sprint(rem) || errClass(err2) != errClass(err) || (err2 == nil && ran != ran1) {
										fmt.Fprintf(pb, "NONIDEMPOTENT reparse: first remaining=%q error=%s ran=%q, second remaining=%q error=%s ran=%q\n", rem, errClass(err), ran1, rem2, errClass(err2), ran)
									}
								}
							}()
						}
					}
					for _, n := range nodes {
						h := n.opt.Help()
						fmt.Fprintf(pb, "help %s=%q\n", n.path, h)
						if n.path == "prog" {
							fmt.Fprintf(pb, "help-sections %s=%q|%q|%q|%q\n", n.path, n.opt.Help(getoptions.HelpName), n.opt.Help(getoptions.HelpSynopsis),
								n.opt.Help(getoptions.HelpCommandList), n.opt.Help(getoptions.HelpOptionList))
						}
						// the same definition object asked again must answer the same
						if h2 := n.opt.Help(); h2 != h {
							fmt.Fprintf(pb, "NONIDEMPOTENT help %s: second rendering differs: %s\n", n.path, firstDiff(h, h2))
						}
					}
				}
				if mode == "parse" {
					// the remaining arguments belong to the program too: it consumes them in place
					for i := range rem {
						rem[i] = "consumed by the program"
					}
				}
				fmt.Fprintf(pb, "%s.writer=%q\n", mode, w.String())
				fmt.Fprintf(pb, "%s.callbacks=%s\n", mode, calls.String())
			}()
		}
	})
	if st != nil {
		st.mapDecisions += sim.Stats.MapDecisions
		st.mapNonSorted += sim.Stats.MapNonSorted
	}
	switch sim.Verdict() {
	case simrt.VOK, simrt.VDeadlock, simrt.VLivelock, simrt.VCapped:
		// goroutines the parser may have left behind are not C20's business
	default:
		fmt.Fprintf(&b, "SIM-VERDICT %s %s\n", sim.Verdict(), firstLine(sim.PanicMsg()))
	}
	return b.String()
}

// helpLines extracts the "help ..." lines of an observation.
func helpLines(obs string) string {
	var out []string
	for _, l := range strings.Split(obs, "\n") {
		if strings.HasPrefix(l, "help ") || strings.HasPrefix(l, "help-sections ") {
			out = append(out, l)
		}
	}
	return strings.Join(out, "\n")
}

// writerIsDevice: during the next observation getoptions.Writer is a real file handle on a
// character device (/dev/null), as when a program's stderr is a terminal.
var writerIsDevice bool

func firstLine(s string) string {
	if i := strings.Index(s, "\n"); i >= 0 {
		return s[:i]
	}
	return s
}

func firstDiff(a, b string) string {
	la, lb := strings.Split(a, "\n"), strings.Split(b, "\n")
	for i := range la {
		if i >= len(lb) {
			return la[i] + "   <>   (missing)"
		}
		if la[i] != lb[i] {
			x, y := la[i], lb[i]
			if len(x) > 400 {
				x = x[:400] + "..."
			}
			if len(y) > 400 {
				y = y[:400] + "..."
			}
			return x + "   <>   " + y
		}
	}
	if len(lb) > len(la) {
		return "(missing)   <>   " + lb[len(la)]
	}
	return ""
}

func orders(seed uint64, k int) []Order {
	os := []Order{{Base: "asc"}, {Base: "desc"}, {Base: "rot"}}
	for i := 0; len(os) < k; i++ {
		os = append(os, Order{Base: "shuffle", Seed: simrt.Mix(seed, uint64(i))})
	}
	return os
}

type disagreement struct {
	a, b Order
	diff string
	kind string // order | repeat
}

// twinCore is the part of an observation that a concurrent twin execution must reproduce: what Parse
// returned and the option values (no output streams: the twins share getoptions.Writer).
func twinCore(obs string) string {
	var out []string
	for _, l := range strings.Split(obs, "\n") {
		if strings.HasPrefix(l, "parse.remaining=") || strings.HasPrefix(l, "parse.error=") || strings.HasPrefix(l, "value ") || strings.HasPrefix(l, "shared-vars ") {
			out = append(out, l)
		}
	}
	return strings.Join(out, "\n")
}

// observeTwin: two goroutines of one program each build the definition for themselves and parse the
// same arguments at the same time (two requests served concurrently by one process). The objects are
// independent, so each must see exactly what a lone execution sees; only package-level state in the
// library can make them differ. Map ranges and sort comparisons are preemption points here.
func observeTwin(sc *Scenario, ord Order) [2]string {
	pol := simrt.Policy{Kind: "uniform", MapMode: ord.Base}
	if ord.Seed%2 == 1 {
		pol.Kind, pol.Sticky = "sticky", 0.8
	}
	ch := simrt.NewRandomChooser(ord.Seed^0x7e1f, pol, false)
	base := ord.Base
	if base == "shuffle" {
		base = "asc"
	}
	var outs [2]strings.Builder
	simrt.Run(simrt.Config{Chooser: ch, MapBase: base, KeepGlobals: true, YieldOnMap: true}, func() {
		for _, kv := range sc.Env {
			os.Setenv(kv[0], kv[1])
		}
		os.Unsetenv("COMP_LINE")
		os.Unsetenv("ZSHELL")
		defer func() {
			for _, kv := range sc.Env {
				os.Unsetenv(kv[0])
			}
		}()
		var w bytes.Buffer
		oldW := getoptions.Writer
		getoptions.Writer = &w
		oldExit := getoptions.VerifSetExit(func(int) {})
		descStyle = sc.DescStyle
		sharedVars = map[*getoptions.GetOpt]*[3]string{}
		var calls strings.Builder
		callLog = &calls
		defer func() {
			getoptions.Writer = oldW
			getoptions.VerifSetExit(oldExit)
			sharedVars, callLog = nil, nil
		}()
		done := simrt.Make[int](2)
		for t := 0; t < 2; t++ {
			t := t
			simrt.GoNamed(fmt.Sprintf("twin%d", t), func() {
				pb := &outs[t]
				defer func() {
					if p := recover(); p != nil {
						fmt.Fprintf(pb, "PANIC %v\n", p)
					}
					simrt.Send(done, t)
				}()
				opt := getoptions.New()
				if sc.SelfEmpty {
					opt.Self("", "a program")
				} else {
					opt.Self("prog", "a program")
				}
				opt.SetMode(getoptions.Mode(sc.Mode))
				opt.SetUnknownMode(getoptions.UnknownMode(sc.Unknown))
				if sc.Lower {
					opt.SetMapKeysToLower()
				}
				ran := ""
				var nodes []node
				build(opt, &sc.Root, "prog", &ran, &nodes)
				if sc.Help {
					hn := "help"
					if sc.HelpName != "" {
						hn = sc.HelpName
					}
					if sc.HelpAlias {
						opt.HelpCommand(hn, opt.Alias("?"))
					} else {
						opt.HelpCommand(hn)
					}
				}
				rem, err := opt.Parse(append([]string(nil), sc.Argv...))
				fmt.Fprintf(pb, "parse.remaining=%q\nparse.error=%s\n", rem, errClass(err))
				for _, n := range nodes {
					for _, d := range append(append([]OptDef(nil), n.def.Opts...), n.def.LateOpts...) {
						fmt.Fprintf(pb, "value %s --%s=%s called=%v as=%q\n", n.path, d.Name, showValue(n.opt.Value(d.Name)), n.opt.Called(d.Name), n.opt.CalledAs(d.Name))
					}
				}
				for _, n := range nodes {
					if sv := sharedVars[n.opt]; sv != nil {
						fmt.Fprintf(pb, "shared-vars %s=%q\n", n.path, sv[1:])
					}
				}
			})
		}
		simrt.Recv(done)
		simrt.Recv(done)
	})
	return [2]string{outs[0].String(), outs[1].String()}
}

// twinDiff: first difference between a lone execution and either of two concurrent ones ("" if none).
func twinDiff(sc *Scenario, o Order, base string) string {
	want := twinCore(base)
	for t, got := range observeTwin(sc, o) {
		if got = twinCore(got); got != want {
			return fmt.Sprintf("two goroutines of one process parse the same arguments on objects of their own at the same time; goroutine %d sees something else than a lone execution: %s", t, firstDiff(want, got))
		}
	}
	return ""
}

// check runs the scenario under k orders plus a repetition and returns the first disagreement.
func check(sc *Scenario, seed uint64, k int, st *obsStats, nexec *int) *disagreement {
	os := orders(seed, k)
	// the program's own tables live as long as the program: one set for all executions of this scenario
	callerTables = map[string][]string{}
	defer func() { callerTables = nil }()
	pre := observe(sc, os[0], nil)
	if strings.Contains(pre, "\nNONIDEMPOTENT ") {
		i := strings.Index(pre, "\nNONIDEMPOTENT ")
		line := pre[i+1:]
		if j := strings.Index(line, "\n"); j >= 0 {
			line = line[:j]
		}
		*nexec++
		return &disagreement{os[0], os[0], line, "idempotence"}
	}
	// the caller's argv slice: the first and the last execution pass the very same slice object
	// (a program parsing os.Args twice); an implementation that scribbles on it has hidden state
	callerArgv := append(make([]string, 0, len(sc.Argv)+4), sc.Argv...)
	base := observeArgv(sc, os[0], st, callerArgv)
	*nexec++
	if base != pre {
		return &disagreement{os[0], os[0], firstDiff(pre, base), "repeat"} // the second execution in this process differs from the first
	}
	for _, o := range os[1:] {
		got := observe(sc, o, st)
		*nexec++
		if got != base {
			return &disagreement{os[0], o, firstDiff(base, got), "order"}
		}
	}
	// two concurrent executions on independent objects
	for _, o := range os[:2] {
		*nexec += 2
		if l := twinDiff(sc, o, base); l != "" {
			return &disagreement{o, o, l, "twin"}
		}
	}
	// what Help() returns must not depend on where warnings would be written to
	writerIsDevice = true
	dev := observe(sc, os[0], st)
	writerIsDevice = false
	*nexec++
	if helpLines(dev) != helpLines(base) {
		return &disagreement{os[0], os[0], "Help() differs when getoptions.Writer is a file handle on a character device: " + firstDiff(helpLines(base), helpLines(dev)), "writer-device"}
	}
	// another program in the same process (a multi-tool binary, a test binary): the same names and the
	// same command line, but flags where this one has strings and the other way round. Nothing it does
	// may show in this program's next execution.
	if nb := neighbour(sc); nb != nil {
		saved := callerTables
		callerTables = map[string][]string{}
		observe(nb, os[0], nil)
		callerTables = saved
		*nexec++
	}
	// hidden state: the very same schedule again, after the others ran in this process
	again := observeArgv(sc, os[0], st, callerArgv)
	*nexec++
	if again != base {
		return &disagreement{os[0], os[0], firstDiff(base, again), "repeat"}
	}
	return nil
}

// neighbour returns a copy of the scenario in which every flag is a string option and every string or
// number option a flag (same names, aliases, commands and command line), or nil if nothing would change.
func neighbour(sc *Scenario) *Scenario {
	raw, err := json.Marshal(sc)
	if err != nil {
		return nil
	}
	nb := &Scenario{}
	if json.Unmarshal(raw, nb) != nil {
		return nil
	}
	changed := false
	var walk func(c *CmdDef)
	swap := func(ds []OptDef) {
		for i := range ds {
			switch ds[i].Kind {
			case 0:
				ds[i].Kind, changed = 2, true
			case 1:
				ds[i].Kind, changed = 5, true
			case 2, 3, 5, 14:
				ds[i].Kind, changed = 0, true
			}
		}
	}
	walk = func(c *CmdDef) {
		swap(c.Opts)
		swap(c.LateOpts)
		for i := range c.Subs {
			walk(&c.Subs[i])
		}
	}
	walk(&nb.Root)
	if !changed {
		return nil
	}
	return nb
}

func classify(d string) string {
	i := strings.IndexAny(d, "= ")
	if i < 0 {
		return "other"
	}
	head := d[:i]
	switch {
	case strings.HasPrefix(head, "help"):
		return "help-text"
	case strings.HasPrefix(head, "value"):
		return "option-values"
	}
	return head
}

type ReplayFile struct {
	Property    string     `json:"property"`
	Oracle      string     `json:"oracle"`
	Message     string     `json:"message"`
	Kind        string     `json:"kind"`
	BaseSeed    uint64     `json:"base_seed"`
	Index       uint64     `json:"scenario_index"`
	OrderA      Order      `json:"order_a"`
	OrderB      Order      `json:"order_b"`
	Scenario    *Scenario  `json:"scenario"`
	Definition  []string   `json:"definition_calls"`
	Diff        string     `json:"first_difference"`
	Original    *Scenario  `json:"original_scenario,omitempty"`
	ObservedA   []string   `json:"observed_a,omitempty"`
	ObservedB   []string   `json:"observed_b,omitempty"`
	Explanation string     `json:"explanation,omitempty"`
	Batch       *BatchSpec `json:"batch,omitempty"`
}

// BatchSpec: replay by re-executing a worker's whole scenario sequence up to the failing index
// (used when the disagreement depends on process state left behind by earlier executions).
type BatchSpec struct {
	Seed    uint64 `json:"seed"`
	Worker  int    `json:"worker"`
	Workers int    `json:"workers"`
	Index   uint64 `json:"index"`
	K       int    `json:"orders_per_scenario"`
	// ProcessState: the violation is "observation after the batch differs from a fresh process"
	ProcessState bool `json:"process_state,omitempty"`
}

func strHash(s string) uint64 {
	h := uint64(14695981039346656037)
	for i := 0; i < len(s); i++ {
		h ^= uint64(s[i])
		h *= 1099511628211
	}
	return h
}

// freshObservation asks a fresh process for the base observation hash of scenario idx.
func freshObservation(seed, idx uint64) (string, bool) {
	cmd := exec.Command(os.Args[0], "-seed", fmt.Sprint(seed), "-obs", fmt.Sprint(idx))
	cmd.Env = os.Environ()
	out, err := cmd.Output()
	if err != nil {
		return "", false
	}
	return strings.TrimSpace(string(out)), true
}

func freshReplay(path string) int {
	cmd := exec.Command(os.Args[0], "-replay", path)
	cmd.Env = os.Environ()
	err := cmd.Run()
	if err == nil {
		return 0
	}
	if ee, ok := err.(*exec.ExitError); ok {
		return ee.ExitCode()
	}
	return 2
}

func clone(sc *Scenario) *Scenario {
	b, _ := json.Marshal(sc)
	var c Scenario
	json.Unmarshal(b, &c)
	return &c
}

// differs reports whether sc still shows a disagreement: under the recorded pair, or under a small
// set of orders (shuffle permutations shift when the number of MapKeys calls changes).
func idempotenceLine(sc *Scenario, o Order) string {
	pre := observe(sc, o, nil)
	i := strings.Index(pre, "\nNONIDEMPOTENT ")
	if i < 0 {
		return ""
	}
	line := pre[i+1:]
	if j := strings.Index(line, "\n"); j >= 0 {
		line = line[:j]
	}
	return line
}

func writerDeviceDiff(sc *Scenario, o Order) string {
	a := helpLines(observe(sc, o, nil))
	writerIsDevice = true
	b := helpLines(observe(sc, o, nil))
	writerIsDevice = false
	if a == b {
		return ""
	}
	return "Help() differs when getoptions.Writer is a file handle on a character device: " + firstDiff(a, b)
}

func differs(sc *Scenario, d *disagreement, seed uint64) *disagreement {
	callerTables = map[string][]string{}
	defer func() { callerTables = nil }()
	if d.kind == "writer-device" {
		if l := writerDeviceDiff(sc, d.a); l != "" {
			return &disagreement{d.a, d.a, l, "writer-device"}
		}
		return nil
	}
	if d.kind == "idempotence" {
		if l := idempotenceLine(sc, d.a); l != "" {
			return &disagreement{d.a, d.a, l, "idempotence"}
		}
		return nil
	}
	if d.kind == "twin" {
		if l := twinDiff(sc, d.a, observe(sc, d.a, nil)); l != "" {
			return &disagreement{d.a, d.a, l, "twin"}
		}
		return nil
	}
	if d.kind == "repeat" {
		callerArgv := append(make([]string, 0, len(sc.Argv)+4), sc.Argv...)
		a := observeArgv(sc, d.a, nil, callerArgv)
		for i := 0; i < 3; i++ {
			if b := observeArgv(sc, d.a, nil, callerArgv); b != a {
				return &disagreement{d.a, d.a, firstDiff(a, b), "repeat"}
			}
		}
		return nil
	}
	a := observe(sc, d.a, nil)
	if b := observe(sc, d.b, nil); b != a {
		return &disagreement{d.a, d.b, firstDiff(a, b), "order"}
	}
	for _, o := range orders(seed, 10)[1:] {
		if b := observe(sc, o, nil); b != a {
			return &disagreement{d.a, o, firstDiff(a, b), "order"}
		}
	}
	return nil
}

func shrinkCmd(c *CmdDef, emit func()) {
	// drop sub-commands, options, aliases, attributes - each as one candidate edit
	for i := len(c.Subs) - 1; i >= 0; i-- {
		saved := append([]CmdDef(nil), c.Subs...)
		c.Subs = append(c.Subs[:i:i], c.Subs[i+1:]...)
		emit()
		c.Subs = saved
	}
	for i := len(c.Opts) - 1; i >= 0; i-- {
		saved := append([]OptDef(nil), c.Opts...)
		c.Opts = append(c.Opts[:i:i], c.Opts[i+1:]...)
		emit()
		c.Opts = saved
	}
	for i := len(c.LateOpts) - 1; i >= 0; i-- {
		saved := append([]OptDef(nil), c.LateOpts...)
		c.LateOpts = append(c.LateOpts[:i:i], c.LateOpts[i+1:]...)
		emit()
		c.LateOpts = saved
	}
	for i := range c.Opts {
		o := &c.Opts[i]
		for j := len(o.Aliases) - 1; j >= 0; j-- {
			saved := append([]string(nil), o.Aliases...)
			o.Aliases = append(o.Aliases[:j:j], o.Aliases[j+1:]...)
			emit()
			o.Aliases = saved
		}
		if o.Required != 0 {
			s := o.Required
			o.Required = 0
			emit()
			o.Required = s
		}
		if o.Valid != nil {
			s := o.Valid
			o.Valid = nil
			emit()
			o.Valid = s
		}
		if o.Suggested != nil {
			s := o.Suggested
			o.Suggested = nil
			emit()
			o.Suggested = s
		}
		if o.Env != "" {
			s := o.Env
			o.Env = ""
			emit()
			o.Env = s
		}
		if o.ArgName != "" {
			s := o.ArgName
			o.ArgName = ""
			emit()
			o.ArgName = s
		}
		if o.SuggFn {
			o.SuggFn = false
			emit()
			o.SuggFn = true
		}
		if o.Kind != 0 {
			s := o.Kind
			o.Kind = 0
			emit()
			o.Kind = s
		}
	}
	if c.Unset {
		c.Unset = false
		emit()
		c.Unset = true
	}
	if c.Lower {
		c.Lower = false
		emit()
		c.Lower = true
	}
	if c.SelfName != "" {
		s := c.SelfName
		c.SelfName = ""
		emit()
		c.SelfName = s
	}
	if c.RequireOrder {
		c.RequireOrder = false
		emit()
		c.RequireOrder = true
	}
	if c.Unknown != 0 {
		s := c.Unknown
		c.Unknown = 0
		emit()
		c.Unknown = s
	}
	if c.ArgComp != nil {
		s := c.ArgComp
		c.ArgComp = nil
		emit()
		c.ArgComp = s
	}
	if c.ArgCompPanic {
		c.ArgCompPanic = false
		emit()
		c.ArgCompPanic = true
	}
	if c.ArgCompFns != 0 {
		s := c.ArgCompFns
		c.ArgCompFns = 0
		emit()
		c.ArgCompFns = s
	}
	if c.Synopsis != nil {
		s := c.Synopsis
		c.Synopsis = nil
		emit()
		c.Synopsis = s
	}
	for i := range c.Subs {
		shrinkCmd(&c.Subs[i], emit)
	}
}

func shrink(sc *Scenario, d *disagreement, seed uint64, budget time.Duration) (*Scenario, *disagreement) {
	deadline := time.Now().Add(budget)
	cur, curD := clone(sc), d
	for improved := true; improved && time.Now().Before(deadline); {
		improved = false
		work := clone(cur)
		var accepted *Scenario
		var accD *disagreement
		try := func() {
			if accepted != nil || time.Now().After(deadline) {
				return
			}
			cand := clone(work)
			if nd := differs(cand, curD, seed); nd != nil {
				accepted, accD = cand, nd
			}
		}
		// argv tokens, env, comp line, flags
		for i := len(work.Argv) - 1; i >= 0; i-- {
			saved := append([]string(nil), work.Argv...)
			work.Argv = append(work.Argv[:i:i], work.Argv[i+1:]...)
			try()
			work.Argv = saved
		}
		for i := len(work.Env) - 1; i >= 0; i-- {
			saved := append([][2]string(nil), work.Env...)
			work.Env = append(work.Env[:i:i], work.Env[i+1:]...)
			try()
			work.Env = saved
		}
		if work.CompLine != "prog " {
			s := work.CompLine
			work.CompLine = "prog "
			try()
			work.CompLine = s
		}
		if work.Help {
			work.Help = false
			try()
			work.Help = true
		}
		if work.HelpAlias {
			work.HelpAlias = false
			try()
			work.HelpAlias = true
		}
		if work.HelpName != "" {
			s := work.HelpName
			work.HelpName = ""
			try()
			work.HelpName = s
		}
		if work.DescStyle != 0 {
			s := work.DescStyle
			work.DescStyle = 0
			try()
			work.DescStyle = s
		}
		if work.Lower {
			work.Lower = false
			try()
			work.Lower = true
		}
		if work.Mode != 0 {
			s := work.Mode
			work.Mode = 0
			try()
			work.Mode = s
		}
		shrinkCmd(&work.Root, try)
		if accepted != nil {
			cur, curD = accepted, accD
			improved = true
		}
	}
	return cur, curD
}

type WorkerOut struct {
	Worker         int               `json:"worker"`
	Scenarios      int               `json:"scenarios"`
	Executions     int               `json:"executions"`
	Nontrivial     int               `json:"nontrivial_scenarios"`
	Probes         map[string]int    `json:"probes"`
	Faults         map[string]int    `json:"faults_fired"`
	Verdicts       map[string]int    `json:"verdicts"`
	WallS          float64           `json:"wall_s"`
	Violation      *ReplayFile       `json:"violation,omitempty"`
	ReplayPath     string            `json:"replay_path,omitempty"`
	Known          []string          `json:"known_findings,omitempty"`
	Inconclusive   string            `json:"inconclusive,omitempty"`
	FoundAfterRuns int               `json:"found_after_runs,omitempty"`
	FoundAfterS    float64           `json:"found_after_s,omitempty"`
	Samples        []json.RawMessage `json:"samples,omitempty"`
}

func scenarioHash(sc *Scenario) uint64 {
	b, _ := json.Marshal(sc)
	h := uint64(14695981039346656037)
	for _, c := range b {
		h ^= uint64(c)
		h *= 1099511628211
	}
	return h
}

func probeScenario(sc *Scenario, base string, p map[string]int) {
	nreq := 0
	for _, o := range sc.Root.Opts {
		if o.Required != 0 {
			nreq++
		}
	}
	if nreq >= 2 {
		p["definitions_with_2plus_required_options_at_root"]++
	}
	if strings.Contains(base, "Missing required") || strings.Contains(base, "need ") {
		p["missing_required_diagnostic_seen"]++
	}
	if strings.Contains(base, "Ambiguous") || strings.Contains(base, "ambiguous") {
		p["ambiguity_diagnostic_seen"]++
	}
	if strings.Contains(base, "Unknown option") || strings.Contains(base, "unknown option") {
		p["unknown_option_diagnostic_seen"]++
	}
	if len(sc.Root.Subs) >= 2 {
		p["definitions_with_2plus_commands"]++
	}
	if strings.Contains(base, "PANIC") {
		p["definitions_that_panic_identically_under_every_order"]++
	}
	for _, l := range strings.Split(base, "\n") {
		if strings.HasPrefix(l, "bash.completions=") && strings.Count(l, `\n`) >= 2 {
			p["completion_lists_with_2plus_entries"]++
		}
		if strings.HasPrefix(l, "dispatch.ran=ran") {
			p["dispatch_ran_a_command"]++
		}
	}
	nunk := 0
	for _, a := range sc.Argv {
		if strings.HasPrefix(a, "--z") || strings.HasPrefix(a, "--y") || strings.HasPrefix(a, "--unk") || a == "-w" || a == "-zy" {
			nunk++
		}
	}
	if nunk >= 2 {
		p["argv_with_2plus_unknown_options"]++
	}
}

func main() {
	tier := flag.String("tier", "quick", "quick|thorough")
	seed := flag.Uint64("seed", 1, "base seed")
	worker := flag.Int("worker", 0, "")
	workers := flag.Int("workers", 1, "")
	budget := flag.Duration("budget", 10*time.Second, "")
	maxRuns := flag.Int("maxruns", 0, "")
	out := flag.String("out", "", "")
	replayDir := flag.String("replaydir", ".", "")
	replayFile := flag.String("replay", "", "")
	_ = flag.String("known", "", "known findings file (no matcher applies to C20 at present)")
	hashOut := flag.String("hashes", "", "")
	merge := flag.String("merge", "", "")
	prof := flag.String("cpuprofile", "", "write a CPU profile (development)")
	dump := flag.Int64("dump", -1, "print scenario and its observation")
	dethash := flag.Int("dethash", 0, "determinism mode")
	obsIdx := flag.Int64("obs", -1, "print the hash of the base observation of this scenario index (fresh-process reference) and exit")
	realRuns := flag.Int("realruns", 0, "real-runtime mode (built with -tags passthrough against the uninstrumented tree): native map order, 9 executions per scenario")
	flag.Parse()
	if *prof != "" {
		if f, err := os.Create(*prof); err == nil {
			pprof.StartCPUProfile(f)
			defer pprof.StopCPUProfile()
		}
	}
	if *merge != "" {
		mergeHashes(*merge)
		return
	}
	if *replayFile != "" {
		os.Exit(doReplay(*replayFile))
	}
	k := 8
	if *tier == "thorough" {
		k = 32
	}
	if *dump >= 0 {
		sc := Generate(simrt.Mix(*seed, 20, uint64(*dump)))
		b, _ := json.MarshalIndent(sc, "", " ")
		fmt.Println(string(b))
		fmt.Println(observe(sc, Order{Base: "asc"}, nil))
		return
	}
	if *obsIdx >= 0 {
		sc := Generate(simrt.Mix(*seed, 20, uint64(*obsIdx)))
		fmt.Printf("%016x\n", strHash(observe(sc, Order{Base: "asc"}, nil)))
		return
	}
	if *dethash > 0 {
		for i := 0; i < *dethash; i++ {
			idx := uint64(*worker + i**workers)
			sc := Generate(simrt.Mix(*seed, 20, idx))
			o := observe(sc, Order{Base: "shuffle", Seed: idx}, nil)
			h := uint64(14695981039346656037)
			for j := 0; j < len(o); j++ {
				h ^= uint64(o[j])
				h *= 1099511628211
			}
			fmt.Printf("%d %016x %016x\n", idx, scenarioHash(sc), h)
		}
		return
	}
	if *realRuns > 0 {
		if !simrt.RealRuntime {
			fmt.Fprintln(os.Stderr, "-realruns needs a binary built with -tags passthrough")
			os.Exit(2)
		}
		type realOut struct {
			Runs, Disagreements, Hung int
			Examples                  []string
		}
		var ro realOut
		for i := 0; i < *realRuns; i++ {
			idx := uint64(*worker) + uint64(i)*uint64(*workers)
			sc := Generate(simrt.Mix(*seed, 20, idx))
			base := observe(sc, Order{Base: "asc"}, nil)
			ro.Runs++
			for k := 0; k < 8; k++ {
				if o := observe(sc, Order{Base: "asc"}, nil); o != base {
					ro.Disagreements++
					if len(ro.Examples) < 5 {
						ro.Examples = append(ro.Examples, fmt.Sprintf("scenario %d: %s", idx, firstDiff(base, o)))
					}
					break
				}
			}
		}
		b, _ := json.Marshal(ro)
		fmt.Println(string(b))
		return
	}
	w := &WorkerOut{Worker: *worker, Probes: map[string]int{}, Faults: map[string]int{}, Verdicts: map[string]int{}}
	t0 := time.Now()
	deadline := t0.Add(*budget)
	hashes := map[uint64]struct{}{}
	for i := 0; ; i++ {
		if *maxRuns > 0 && i >= *maxRuns {
			break
		}
		if i%8 == 0 && time.Now().After(deadline) {
			break
		}
		idx := uint64(*worker) + uint64(i)*uint64(*workers)
		rs := simrt.Mix(*seed, 20, idx)
		sc := Generate(rs)
		var st obsStats
		d := check(sc, rs, k, &st, &w.Executions)
		w.Scenarios++
		w.Probes["map_order_decisions"] += st.mapDecisions
		w.Probes["map_order_decisions_nonsorted"] += st.mapNonSorted
		w.Faults["map_order_permuted"] += st.mapNonSorted
		w.Faults["slow_program_callback"] += st.slowCallbacks
		if st.mapDecisions > 0 {
			w.Nontrivial++
			if len(hashes) < 1<<20 {
				hashes[scenarioHash(sc)] = struct{}{}
			}
		}
		base := observe(sc, Order{Base: "asc"}, nil)
		probeScenario(sc, base, w.Probes)
		// Hidden state across definitions: every 8th scenario is also observed in a fresh process;
		// the observation there must equal the one made here after thousands of other executions.
		if d == nil && !simrt.RealRuntime && i%8 == 7 {
			w.Probes["fresh_process_cross_checks"]++
			if ref, ok := freshObservation(*seed, idx); ok && ref != fmt.Sprintf("%016x", strHash(base)) {
				d = &disagreement{Order{Base: "asc"}, Order{Base: "asc"}, "the observation made in this process (after " + fmt.Sprint(i) + " earlier scenarios) differs from the observation of the same scenario in a fresh process", "process-state"}
			}
		}
		if strings.Contains(base, "SIM-VERDICT") {
			w.Inconclusive = fmt.Sprintf("scenario %d: %s", idx, base[strings.Index(base, "SIM-VERDICT"):])
			break
		}
		if len(w.Samples) < 2 && i >= 2 && st.mapDecisions > 0 && !strings.Contains(base, "PANIC") {
			s := map[string]interface{}{"scenario_index": idx, "definition_calls": sc.DefinitionCalls(), "argv": sc.Argv, "env": sc.Env, "comp_line": sc.CompLine,
				"orders": fmt.Sprint(orders(rs, k)), "map_order_decisions": st.mapDecisions, "observation_under_asc_head": headLines(base, 8)}
			b, _ := json.Marshal(s)
			w.Samples = append(w.Samples, b)
		}
		if d != nil {
			w.FoundAfterRuns, w.FoundAfterS = w.Scenarios, time.Since(t0).Seconds()
		}
		if d != nil && d.kind == "process-state" {
			path := filepath.Join(*replayDir, fmt.Sprintf("C20-%d-%d.json", *seed, idx))
			os.MkdirAll(*replayDir, 0o755)
			rf := &ReplayFile{Property: "C20", Oracle: "O20-process-state", Kind: d.kind, BaseSeed: *seed, Index: idx, OrderA: d.a, OrderB: d.b,
				Scenario: sc, Definition: sc.DefinitionCalls(), Diff: d.diff, Message: "same definition and input, different result depending on what was executed earlier in the process (hidden state): " + d.diff,
				Batch: &BatchSpec{Seed: *seed, Worker: *worker, Workers: *workers, Index: idx, K: k, ProcessState: true}}
			b, _ := json.MarshalIndent(rf, "", " ")
			os.WriteFile(path, b, 0o644)
			if freshReplay(path) != 1 {
				w.Inconclusive = fmt.Sprintf("scenario %d: process-state disagreement did not reproduce as a batch", idx)
				break
			}
			w.Violation, w.ReplayPath = rf, path
			break
		}
		if d != nil {
			msc, md := shrink(sc, d, rs, 20*time.Second)
			rf := &ReplayFile{Property: "C20", Oracle: "O20-" + md.kind + "-" + classify(md.diff), Kind: md.kind, BaseSeed: *seed, Index: idx, OrderA: md.a, OrderB: md.b,
				Scenario: msc, Definition: msc.DefinitionCalls(), Diff: md.diff, Original: sc}
			rf.Message = fmt.Sprintf("same definition and input, different observable under map iteration orders %s and %s: %s", md.a, md.b, md.diff)
			if md.kind == "repeat" {
				rf.Message = fmt.Sprintf("same definition, input and iteration order (%s), different observable on repetition (hidden state): %s", md.a, md.diff)
			}
			if md.kind == "idempotence" {
				rf.Message = "the same definition object gives a different text when asked twice: " + md.diff
			}
			if md.kind == "twin" {
				rf.Oracle = "O20-twin"
				rf.Message = "same definition and input, different result when another goroutine of the process parses at the same time (hidden package-level state): " + md.diff
			}
			// a replay file must reproduce in a FRESH process from the file alone
			path := filepath.Join(*replayDir, fmt.Sprintf("C20-%d-%d.json", *seed, idx))
			os.MkdirAll(*replayDir, 0o755)
			write := func() {
				b, _ := json.MarshalIndent(rf, "", " ")
				os.WriteFile(path, b, 0o644)
			}
			write()
			if freshReplay(path) != 1 {
				// hidden state: minimisation ran against a process whose state had already changed;
				// fall back to the unminimised scenario, then to replaying the whole batch
				rf.Scenario, rf.Definition, rf.OrderA, rf.OrderB, rf.Diff, rf.Kind = sc, sc.DefinitionCalls(), d.a, d.b, d.diff, d.kind
				rf.Oracle = "O20-" + d.kind + "-" + classify(d.diff)
				rf.Message = fmt.Sprintf("same definition and input, different observable (%s) between executions under orders %s and %s: %s", d.kind, d.a, d.b, d.diff)
				rf.Explanation = "the disagreement depends on state the library keeps between executions in one process; the minimised scenario did not reproduce in a fresh process"
				write()
				if freshReplay(path) != 1 {
					rf.Batch = &BatchSpec{Seed: *seed, Worker: *worker, Workers: *workers, Index: idx, K: k}
					write()
					if freshReplay(path) != 1 {
						w.Inconclusive = fmt.Sprintf("scenario %d: disagreement reproduces neither alone nor as a batch in a fresh process", idx)
						break
					}
				}
			}
			w.Violation, w.ReplayPath = rf, path
			break
		}
	}
	w.WallS = time.Since(t0).Seconds()
	w.Verdicts["ok"] = w.Scenarios
	if *hashOut != "" {
		hs := make([]uint64, 0, len(hashes))
		for h := range hashes { // order irrelevant: sorted below
			hs = append(hs, h)
		}
		sort.Slice(hs, func(i, j int) bool { return hs[i] < hs[j] })
		buf := make([]byte, 8*len(hs))
		for i, h := range hs {
			binary.LittleEndian.PutUint64(buf[8*i:], h)
		}
		os.WriteFile(*hashOut, buf, 0o644)
	}
	b, _ := json.MarshalIndent(w, "", " ")
	if *out != "" {
		os.WriteFile(*out, b, 0o644)
	} else {
		fmt.Println(string(b))
	}
	if w.Inconclusive != "" {
		fmt.Fprintln(os.Stderr, "INCONCLUSIVE:", w.Inconclusive)
		os.Exit(2)
	}
	if w.Violation != nil {
		os.Exit(1)
	}
}

func headLines(s string, n int) []string {
	l := strings.Split(s, "\n")
	if len(l) > n {
		l = l[:n]
	}
	for i := range l {
		if len(l[i]) > 200 {
			l[i] = l[i][:200] + "..."
		}
	}
	return l
}

// differsExact replays the recorded pair of orders; returns the first difference ("" = none).
func differsExact(rf *ReplayFile) string {
	callerTables = map[string][]string{}
	defer func() { callerTables = nil }()
	if rf.Kind == "writer-device" {
		return writerDeviceDiff(rf.Scenario, rf.OrderA)
	}
	if rf.Kind == "idempotence" {
		return idempotenceLine(rf.Scenario, rf.OrderA)
	}
	if rf.Kind == "twin" {
		return twinDiff(rf.Scenario, rf.OrderA, observe(rf.Scenario, rf.OrderA, nil))
	}
	callerArgv := append(make([]string, 0, len(rf.Scenario.Argv)+4), rf.Scenario.Argv...)
	if rf.Kind != "repeat" {
		callerArgv = nil
	}
	a := observeArgv(rf.Scenario, rf.OrderA, nil, callerArgv)
	b := observeArgv(rf.Scenario, rf.OrderB, nil, callerArgv)
	if rf.Kind == "repeat" {
		for i := 0; i < 3 && a == b; i++ {
			b = observeArgv(rf.Scenario, rf.OrderB, nil, callerArgv)
		}
	}
	if a == b {
		return ""
	}
	return firstDiff(a, b)
}

func doReplay(path string) int {
	b, err := os.ReadFile(path)
	if err != nil {
		fmt.Fprintln(os.Stderr, err)
		return 2
	}
	var rf ReplayFile
	if err := json.Unmarshal(b, &rf); err != nil {
		fmt.Fprintln(os.Stderr, "bad replay file:", err)
		return 2
	}
	if rf.Batch != nil {
		bs := rf.Batch
		fmt.Printf("batch-replaying %s: worker %d of %d up to scenario %d\n", path, bs.Worker, bs.Workers, bs.Index)
		n := 0
		for i := 0; ; i++ {
			idx := uint64(bs.Worker) + uint64(i)*uint64(bs.Workers)
			if idx > bs.Index {
				break
			}
			rs := simrt.Mix(bs.Seed, 20, idx)
			sc := Generate(rs)
			d := check(sc, rs, bs.K, nil, &n)
			last := observe(sc, Order{Base: "asc"}, nil)
			if idx == bs.Index && bs.ProcessState {
				ref, ok := freshObservation(bs.Seed, idx)
				if ok && ref != fmt.Sprintf("%016x", strHash(last)) {
					fmt.Println("  the observation after the batch differs from the observation in a fresh process")
					fmt.Printf("VIOLATION property=C20 replay=%s\n", path)
					return 1
				}
				break
			}
			if idx == bs.Index && d != nil {
				fmt.Println("  first difference:", d.diff)
				fmt.Printf("VIOLATION property=C20 replay=%s\n", path)
				return 1
			}
		}
		fmt.Println("the batch shows no disagreement on this tree")
		return 0
	}
	fmt.Printf("replaying %s: property=C20 oracle=%s\n", path, rf.Oracle)
	for _, c := range rf.Definition {
		fmt.Println("  def:", c)
	}
	fmt.Printf("  argv=%q env=%v COMP_LINE=%q orders: %s vs %s\n", rf.Scenario.Argv, rf.Scenario.Env, rf.Scenario.CompLine, rf.OrderA, rf.OrderB)
	d := differsExact(&rf)
	if d == "" {
		fmt.Println("both executions agree on this tree (the recorded disagreement is gone)")
		return 0
	}
	fmt.Println("  first difference:", d)
	if d != rf.Diff {
		fmt.Println("  (recorded difference was:", rf.Diff, ")")
	}
	fmt.Printf("VIOLATION property=C20 replay=%s\n", path)
	return 1
}

func mergeHashes(glob string) {
	files, _ := filepath.Glob(glob)
	var all []uint64
	for _, f := range files {
		b, err := os.ReadFile(f)
		if err != nil {
			continue
		}
		for i := 0; i+8 <= len(b); i += 8 {
			all = append(all, binary.LittleEndian.Uint64(b[i:]))
		}
	}
	sort.Slice(all, func(i, j int) bool { return all[i] < all[j] })
	n := 0
	for i, h := range all {
		if i == 0 || h != all[i-1] {
			n++
		}
	}
	fmt.Println(n)
}

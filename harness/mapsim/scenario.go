package main

import (
	"fmt"
	"strings"

	"verif/simrt"
)

// A Scenario is a program definition (list of definition calls, stored explicitly), an argv, an
// environment and a COMP_LINE. It is what "same definition and input" means for C20.

type OptDef struct {
	Kind      int      `json:"kind"` // 0 Bool 1 Increment 2 String 3 Int 4 Float64 5 StringOptional 6 IntOptional 7 Float64Optional 8 StringSlice 9 IntSlice 10 Float64Slice 11 StringMap 12 StringMapVar (variable already holds entries) 13 StringSliceVar (variable already holds entries) 14 StringVar
	Name      string   `json:"name"`
	Aliases   []string `json:"aliases,omitempty"`
	Required  int      `json:"required,omitempty"` // 0 no, 1 yes, 2 with custom message
	Valid     []string `json:"valid,omitempty"`
	Suggested []string `json:"suggested,omitempty"`
	ShareVar  int      `json:"share_var,omitempty"`           // kind 14 only: >0 = this StringVar option stores into shared variable number ShareVar of its node (several options, one destination)
	SuggFn    bool     `json:"suggested_values_fn,omitempty"` // SuggestedValuesFn: a callback computing value completions (its calls are logged)
	Env       string   `json:"env,omitempty"`
	ArgName   string   `json:"arg_name,omitempty"`
	Min       int      `json:"min,omitempty"`
	Max       int      `json:"max,omitempty"`
}

type CmdDef struct {
	Name         string   `json:"name"`
	Opts         []OptDef `json:"opts,omitempty"`
	LateOpts     []OptDef `json:"late_opts,omitempty"` // options declared on this node AFTER its sub-commands were created (against the documented order, but accepted)
	Subs         []CmdDef `json:"subs,omitempty"`
	Fn           bool     `json:"fn,omitempty"`
	Unset        bool     `json:"unset_options,omitempty"`
	Lower        bool     `json:"map_keys_to_lower,omitempty"` // SetMapKeysToLower on this command only
	RequireOrder bool     `json:"require_order,omitempty"`
	Unknown      int      `json:"unknown_mode,omitempty"` // -1 = inherit (0 is a mode), stored +1
	SelfName     string   `json:"self_name,omitempty"`    // Self(name, description) called on the command: its display name in help
	ArgComp      []string `json:"arg_completions,omitempty"`
	ArgCompOwned bool     `json:"arg_completion_fn_owned_table,omitempty"` // the first completion callback returns a table the program keeps and reuses (one entry)
	ArgCompPanic bool     `json:"arg_completion_fn_panics,omitempty"`      // the last completion callback panics (a nil map write in the program's own code)
	ArgCompFns   int      `json:"arg_completion_fns,omitempty"`            // number of ArgCompletionsFns callbacks (overlapping results, calls are logged)
	Synopsis     []string `json:"synopsis_args,omitempty"`
}

type Scenario struct {
	Root       CmdDef      `json:"root"`
	Help       bool        `json:"help_command,omitempty"`
	HelpAlias  bool        `json:"help_alias,omitempty"`
	HelpName   string      `json:"help_name,omitempty"`  // name of the help command/option ("help" when empty)
	DescStyle  int         `json:"desc_style,omitempty"` // 0 plain descriptions; 1 with newlines and tabs; 2 with format verbs; 3 very long
	Mode       int         `json:"mode"`
	Unknown    int         `json:"unknown_mode"`
	Lower      bool        `json:"map_keys_to_lower,omitempty"`
	SelfEmpty  bool        `json:"self_empty_name,omitempty"` // opt.Self("", description): the name comes from the executable
	Argv       []string    `json:"argv"`
	Env        [][2]string `json:"env,omitempty"`
	CompLine   string      `json:"comp_line"`
	NoDispatch bool        `json:"no_dispatch,omitempty"`      // the program never calls Dispatch (it inspects the remaining arguments itself)
	FnErr      bool        `json:"command_fn_error,omitempty"` // command functions return their own error
	Ctx        string      `json:"dispatch_ctx,omitempty"`     // "" background; "cancelled" before Dispatch; "fn" the command function cancels it; "deadline" already expired
}

var kindNames = []string{"Bool", "Increment", "String", "Int", "Float64", "StringOptional", "IntOptional", "Float64Optional", "StringSlice", "IntSlice", "Float64Slice", "StringMap", "StringMapVar(prefilled)", "StringSliceVar(prefilled)", "StringVar"}

const nKinds = 15

// DefinitionCalls renders the definition as the list of API calls it stands for.
func (sc *Scenario) DefinitionCalls() []string {
	var out []string
	out = append(out, fmt.Sprintf("opt := getoptions.New(); opt.SetMode(%d); opt.SetUnknownMode(%d)", sc.Mode, sc.Unknown))
	var walk func(path string, c *CmdDef)
	walk = func(path string, c *CmdDef) {
		for _, o := range c.Opts {
			s := fmt.Sprintf("%s.%s(%q", path, kindNames[o.Kind], o.Name)
			if len(o.Aliases) > 0 {
				s += fmt.Sprintf(", Alias(%s)", strings.Join(o.Aliases, ","))
			}
			switch o.Required {
			case 1:
				s += ", Required()"
			case 2:
				s += ", Required(msg)"
			}
			if len(o.Valid) > 0 {
				s += fmt.Sprintf(", ValidValues(%s)", strings.Join(o.Valid, ","))
			}
			if len(o.Suggested) > 0 {
				s += fmt.Sprintf(", SuggestedValues(%s)", strings.Join(o.Suggested, ","))
			}
			if o.Env != "" {
				s += fmt.Sprintf(", GetEnv(%s)", o.Env)
			}
			out = append(out, s+")")
		}
		if c.Unset {
			out = append(out, path+".UnsetOptions()")
		}
		if c.Lower && path != "opt" {
			out = append(out, path+".SetMapKeysToLower()")
		}
		if c.SelfName != "" && path != "opt" {
			out = append(out, fmt.Sprintf("%s.Self(%q, ...)", path, c.SelfName))
		}
		if c.RequireOrder {
			out = append(out, path+".SetRequireOrder()")
		}
		for i := range c.Subs {
			out = append(out, fmt.Sprintf("%s.NewCommand(%q)", path, c.Subs[i].Name))
			walk(path+"/"+c.Subs[i].Name, &c.Subs[i])
		}
		for _, o := range c.LateOpts {
			out = append(out, fmt.Sprintf("%s.%s(%q, aliases=%v, required=%d)  [declared after the sub-commands]", path, kindNames[o.Kind], o.Name, o.Aliases, o.Required))
		}
	}
	walk("opt", &sc.Root)
	if sc.Help {
		out = append(out, "opt.HelpCommand(\"help\")")
	}
	if sc.FnErr {
		out = append(out, "command functions return errors of their own")
	}
	if sc.Ctx != "" {
		out = append(out, "Dispatch context: "+map[string]string{"cancelled": "cancelled before Dispatch", "fn": "cancelled by the command function", "deadline": "deadline already passed"}[sc.Ctx])
	}
	return out
}

// Words share prefixes on purpose (abbreviation ambiguity, completion lists with several entries).
var words = []string{"v", "ver", "verbose", "version", "val", "value", "values", "f", "fo", "foo", "force", "file", "files", "b", "bar", "baz", "build", "x", "xy", "q", "quiet", "quick", "d", "debug", "dry", "t", "tag", "tags", "n", "name", "V", "Ver", "File", "Q", "B", "Tag", "N", "Name", "include", "exclude", "valued", "dry-run", "dry-runs", "v2", "job-count", "jobs", "x-y", "1", "22", "build", "log", "a-very-long-option-name-that-forces-the-help-to-wrap-its-columns"}
var cmdWords = []string{"build", "bench", "bump", "clean", "check", "clone", "test", "tidy", "run", "log", "logs", "login", "show", "slow", "status", "v2", "v10", "v1beta1", "v1"}

func genOpts(r *simrt.RNG, taken map[string]bool, n int, reqBias int) []OptDef {
	var out []OptDef
	for i := 0; i < n; i++ {
		w := words[r.Intn(len(words))]
		if taken[w] {
			continue
		}
		taken[w] = true
		o := OptDef{Kind: r.Intn(nKinds), Name: w}
		for k := r.Intn(4); k > 0; k-- {
			a := words[r.Intn(len(words))]
			if !taken[a] {
				taken[a] = true
				o.Aliases = append(o.Aliases, a)
			}
		}
		if r.Intn(100) < reqBias {
			o.Required = 1 + r.Intn(2)
		}
		switch o.Kind {
		case 2, 5:
			switch r.Intn(4) {
			case 0:
				o.Valid = []string{"red", "green", "blue", "grey"}[:2+r.Intn(3)]
				if r.Intn(4) == 0 {
					o.Valid = append(o.Valid, o.Valid[0])
				}
			case 2: // a table of levels: some of them valid, and more suggested on top
				o.Valid = []string{"debug", "info", "warn"}[:2+r.Intn(2)]
				o.Suggested = []string{"trace", "error"}[:1+r.Intn(2)]
			case 1:
				o.Suggested = []string{"alpha", "beta", "gamma", "alps"}[:2+r.Intn(3)]
				if r.Intn(2) == 0 { // values that look like an unfinished assignment
					o.Suggested = append(o.Suggested, "a=", "alp=")
				}
				if r.Intn(3) == 0 { // a repeated entry
					o.Suggested = append(o.Suggested, o.Suggested[0])
				}
				if r.Intn(6) == 0 { // values a shell would have to quote
					o.Suggested = append(o.Suggested, "alpha beta", "al$HOME", `al"q'`, "a&b;(c)|d")
				}
			}
		}
		if o.Kind >= 8 && o.Kind <= 13 {
			o.Min = 1
			o.Max = 1 + r.Intn(3)
		}
		if (o.Kind <= 7 || o.Kind == 14) && o.Kind != 1 && r.Intn(5) == 0 {
			o.Env = "VERIF_ENV_" + strings.ToUpper(strings.ReplaceAll(w, "-", "_"))
		}
		if r.Intn(6) == 0 {
			o.ArgName = "thing"
		}
		if o.Kind == 14 && r.Intn(2) == 0 {
			o.ShareVar = 1 + r.Intn(2)
			if r.Intn(2) == 0 {
				o.Env = "VERIF_ENV_" + strings.ToUpper(strings.ReplaceAll(w, "-", "_"))
			}
		}
		if o.Kind >= 2 && r.Intn(8) == 0 {
			o.SuggFn = true
		}
		out = append(out, o)
	}
	return out
}

func copyTaken(t map[string]bool) map[string]bool {
	c := map[string]bool{}
	for k, v := range t { // order irrelevant: building a set
		c[k] = v
	}
	return c
}

func genCmd(r *simrt.RNG, name string, taken map[string]bool, depth int, reqBias int) CmdDef {
	c := CmdDef{Name: name, Fn: r.Intn(5) != 0}
	if r.Intn(12) == 0 { // a display name set through Self; siblings may end up with the same one
		c.SelfName = []string{"tool", "cmd", name}[r.Intn(3)]
	}
	c.Opts = genOpts(r, taken, r.Intn(5), reqBias)
	if r.Intn(10) == 0 {
		c.Unset = true
	}
	if r.Intn(8) == 0 {
		c.Lower = true
	}
	if r.Intn(8) == 0 {
		c.RequireOrder = true
	}
	if r.Intn(6) == 0 {
		c.Unknown = 1 + r.Intn(3)
	}
	if r.Intn(4) == 0 {
		c.ArgComp = []string{"apple", "apricot", "banana", "avocado"}[:2+r.Intn(3)]
		if r.Intn(4) == 0 {
			c.ArgComp = append(c.ArgComp, "v2", "v10", "v1beta1")
		}
		if r.Intn(8) == 0 { // candidates a shell would have to quote
			c.ArgComp = append(c.ArgComp, "apple pie", "a$x", `ap"o'`)
		}
		if r.Intn(2) == 0 { // completion candidates that also come from another source, and repeats
			c.ArgComp = append(c.ArgComp, cmdWords[r.Intn(len(cmdWords))], "apple", cmdWords[r.Intn(len(cmdWords))])
		}
	}
	if r.Intn(5) == 0 {
		c.Synopsis = []string{"<file>", "<dir>"}[:1+r.Intn(2)]
	}
	if r.Intn(6) == 0 {
		c.ArgCompFns = 1 + r.Intn(2)
		c.ArgCompPanic = r.Intn(8) == 0
		c.ArgCompOwned = r.Intn(3) == 0
	}
	if depth < 4 && r.Intn(1+2*depth) == 0 {
		used := map[string]bool{}
		for i, n := 0, 2+r.Intn(2); i < n; i++ {
			w := cmdWords[r.Intn(len(cmdWords))]
			if used[w] {
				continue
			}
			used[w] = true
			c.Subs = append(c.Subs, genCmd(r, w, copyTaken(taken), depth+1, reqBias))
		}
	}
	if len(c.Subs) >= 2 && r.Intn(3) == 0 {
		// a pure grouping command: no function of its own, and several leaves that are not wired up yet
		c.Fn = false
		for i := range c.Subs {
			if len(c.Subs[i].Subs) == 0 && r.Intn(3) != 0 {
				c.Subs[i].Fn = false
			}
		}
	}
	if len(c.Subs) > 0 && r.Intn(4) == 0 {
		c.LateOpts = genOpts(r, copyTaken(taken), 1+r.Intn(2), reqBias)
	}
	return c
}

func allNames(c *CmdDef) []string {
	var out []string
	for _, o := range append(append([]OptDef(nil), c.Opts...), c.LateOpts...) {
		out = append(out, o.Name)
		out = append(out, o.Aliases...)
	}
	return out
}

func optByName(c *CmdDef, name string) *OptDef {
	for i := range c.Opts {
		if c.Opts[i].Name == name {
			return &c.Opts[i]
		}
		for _, a := range c.Opts[i].Aliases {
			if a == name {
				return &c.Opts[i]
			}
		}
	}
	return nil
}

var anyCase = []string{"TRUE", "False", "true", "FALSE", "Yes"}

func valueFor(r *simrt.RNG, o *OptDef) string {
	if o == nil {
		return "1"
	}
	switch o.Kind {
	case 2, 5, 8, 13, 14:
		if len(o.Valid) > 0 && r.Intn(4) != 0 {
			return o.Valid[r.Intn(len(o.Valid))]
		}
		return []string{"hello", "red", "a b", "-x", ""}[r.Intn(5)]
	case 3, 6:
		return []string{"1", "42", "-3", "x1"}[r.Intn(4)]
	case 9:
		if r.Intn(60) == 0 {
			return "1..40000" // a range large enough for any "worth doing in parallel" threshold
		}
		return []string{"1", "42", "-3", "x1", "1..3", "5..2"}[r.Intn(6)]
	case 4, 7, 10:
		return []string{"1.5", "2", "abc"}[r.Intn(3)]
	case 11, 12:
		return []string{"k=v", "Key=Val", "novalue", "key=val"}[r.Intn(4)]
	}
	return "1"
}

// Generate draws a scenario. The generator is biased to put at least two entries into every table
// the library iterates: several missing required options, several unknown options, ambiguous
// prefixes with >= 2 candidates, >= 2 commands, >= 2 aliases, inherited options at depth >= 2.
func Generate(seed uint64) *Scenario {
	r := simrt.NewRNG(seed)
	sc := &Scenario{}
	reqBias := []int{0, 15, 35, 60}[r.Intn(4)]
	taken := map[string]bool{"help": true}
	sc.Root = CmdDef{Name: "prog", Fn: r.Intn(2) == 0}
	if r.Intn(4) == 0 {
		sc.Root.Synopsis = []string{"<src>", "<dst>", "<mode>"}[:1+r.Intn(3)]
		if r.Intn(4) == 0 { // described but unnamed arguments
			sc.Root.Synopsis = append(sc.Root.Synopsis, "", "")
		}
		if r.Intn(4) == 0 { // a name longer than any option synopsis
			sc.Root.Synopsis = append(sc.Root.Synopsis, "<the-name-of-the-directory-that-receives-the-output-files>")
		}
	}
	if r.Intn(6) == 0 { // completion callbacks on the program itself, next to its commands
		sc.Root.ArgCompFns = 1 + r.Intn(2)
		sc.Root.ArgCompPanic = r.Intn(4) == 0
		sc.Root.ArgCompOwned = r.Intn(3) == 0
	}
	sc.Root.Opts = genOpts(r, taken, 2+r.Intn(7), reqBias)
	if r.Intn(4) == 0 {
		sc.Root.ArgComp = []string{"apple", "apricot", "banana"}
		if r.Intn(2) == 0 {
			sc.Root.ArgComp = append(sc.Root.ArgComp, cmdWords[r.Intn(len(cmdWords))], "banana", cmdWords[r.Intn(len(cmdWords))], "help")
		}
	}
	used := map[string]bool{}
	for i, nc := 0, r.Intn(5); i < nc; i++ {
		w := cmdWords[r.Intn(len(cmdWords))]
		if used[w] {
			continue
		}
		used[w] = true
		sc.Root.Subs = append(sc.Root.Subs, genCmd(r, w, copyTaken(taken), 1, reqBias))
	}
	if len(sc.Root.Subs) > 0 && r.Intn(4) == 0 {
		// declared after the commands exist; may collide with names the commands use themselves
		sc.Root.LateOpts = genOpts(r, copyTaken(taken), 1+r.Intn(2), reqBias)
	}
	// directed shapes that random drawing reaches too rarely
	special := ""
	shape := r.Intn(40)
	if (shape == 2 || shape == 3) && r.Intn(3) != 0 {
		shape = 39 // the two big shapes cost a hundred ordinary scenarios each: draw them less often
	}
	switch shape {
	case 0: // two sibling commands with the same display name, addressed by that name
		if len(sc.Root.Subs) >= 2 {
			n := []string{"tool", "cmd"}[r.Intn(2)]
			sc.Root.Subs[0].SelfName, sc.Root.Subs[1].SelfName = n, n
			special = n
		}
	case 1: // names whose "natural" order is not a total order, as commands and as suggestions
		have := map[string]bool{}
		for _, c := range sc.Root.Subs {
			have[c.Name] = true
		}
		for _, n := range []string{"v2", "v10", "v1beta1"} {
			if !have[n] && r.Intn(3) != 0 {
				sc.Root.Subs = append(sc.Root.Subs, genCmd(r, n, copyTaken(taken), 1, reqBias))
			}
		}
		sc.Root.ArgComp = append(sc.Root.ArgComp, "v2", "v10", "v1beta1")
		special = "complete:v"
	case 2: // a tool with many commands (more than any "small list" threshold), and a partial help topic to complete
		have := map[string]bool{}
		for _, c := range sc.Root.Subs {
			have[c.Name] = true
		}
		for _, n := range cmdWords {
			if !have[n] {
				sc.Root.Subs = append(sc.Root.Subs, CmdDef{Name: n, Fn: r.Intn(2) == 0})
			}
		}
		special = "complete:help"
	case 4: // sibling commands whose names differ only in case, addressed in yet another case
		if len(sc.Root.Subs) >= 1 {
			n := sc.Root.Subs[0].Name
			if up := strings.ToUpper(n); up != n {
				twin := genCmd(r, up, copyTaken(taken), 1, reqBias)
				sc.Root.Subs = append(sc.Root.Subs, twin)
				special = strings.ToUpper(n[:1]) + n[1:]
			}
		}
	case 3: // a program with a great many options (beyond any "small program" threshold)
		more := genOpts(r, taken, 40, reqBias)
		sc.Root.Opts = append(sc.Root.Opts, more...)
	}
	sc.Help = r.Intn(3) != 0 || special == "complete:help"
	sc.HelpAlias = sc.Help && r.Intn(2) == 0
	if sc.Help && r.Intn(6) == 0 && special != "complete:help" {
		sc.HelpName = "info"
	}
	sc.DescStyle = []int{0, 0, 0, 1, 2, 3}[r.Intn(6)]
	sc.FnErr = r.Intn(4) == 0
	sc.NoDispatch = r.Intn(6) == 0
	sc.Ctx = []string{"", "", "", "", "cancelled", "fn", "deadline"}[r.Intn(7)]
	sc.Mode = r.Intn(3)
	sc.Unknown = r.Intn(3)
	sc.Lower = r.Intn(6) == 0
	if r.Intn(8) == 0 {
		sc.Root.RequireOrder = true
	}

	// argv
	cur := &sc.Root
	names := allNames(cur)
	unknowns := []string{"--zzz", "--yyy=3", "-w", "--unk", "--zeta", "-zy"}
	nargs := r.Intn(8)
	if special != "" && !strings.HasPrefix(special, "complete:") {
		sc.Argv = append(sc.Argv, special)
		nargs = r.Intn(2)
	}
	if len(cur.Subs) > 0 && r.Intn(10) == 0 { // `help <topic>`, the topic possibly abbreviated
		w := cur.Subs[r.Intn(len(cur.Subs))].Name
		if deeper := grandChildren(cur); len(deeper) > 0 && r.Intn(3) == 0 {
			// a topic that is not a direct sub-command but exists further down (possibly under several parents)
			w = deeper[r.Intn(len(deeper))]
		}
		sc.Argv = append(sc.Argv, "help", w[:1+r.Intn(len(w))])
		nargs = 0
	}
	// a map option given several key=value arguments whose keys differ only in case
	for _, w := range names {
		if o := optByName(cur, w); o != nil && (o.Kind == 11 || o.Kind == 12) && o.Max >= 2 && r.Intn(3) == 0 {
			sc.Argv = append(sc.Argv, "--"+w, "key=V1", []string{"KEY=v2", "Key=v3"}[r.Intn(2)])
			break
		}
	}
	for i, n := 0, nargs; i < n; i++ {
		switch r.Intn(10) {
		case 0, 1: // known option with value
			if len(names) > 0 {
				w := names[r.Intn(len(names))]
				o := optByName(cur, w)
				if o != nil && o.Kind <= 1 {
					if r.Intn(4) == 0 {
						// a flag written with an attached value, in whatever case the user likes
						sc.Argv = append(sc.Argv, "--"+w+"="+anyCase[r.Intn(len(anyCase))])
					} else {
						sc.Argv = append(sc.Argv, "--"+w)
					}
				} else if r.Intn(2) == 0 {
					v := valueFor(r, o)
					if o != nil && (o.Kind == 2 || o.Kind == 5) && r.Intn(4) == 0 {
						// the very words a flag would take, given to an option that keeps them verbatim
						v = anyCase[r.Intn(len(anyCase))]
					}
					sc.Argv = append(sc.Argv, "--"+w+"="+v)
				} else {
					sc.Argv = append(sc.Argv, "--"+w, valueFor(r, o))
					if o != nil && (o.Kind == 11 || o.Kind == 12) && r.Intn(2) == 0 {
						// several key=value arguments for one option, keys differing only in case
						sc.Argv = append(sc.Argv, []string{"key=V2", "KEY=v3", "Key=other", "k=w"}[r.Intn(4)])
						if r.Intn(2) == 0 {
							sc.Argv = append(sc.Argv, []string{"key=V4", "kEy=v5"}[r.Intn(2)])
						}
					}
				}
			}
		case 2: // abbreviation (possibly ambiguous)
			if len(names) > 0 {
				w := names[r.Intn(len(names))]
				sc.Argv = append(sc.Argv, "--"+w[:1+r.Intn(len(w))])
			}
		case 3: // a prefix shared by several words
			sc.Argv = append(sc.Argv, "--"+[]string{"v", "ve", "ver", "va", "val", "f", "fo", "fi", "b", "ba", "q", "qui", "t", "ta", "d"}[r.Intn(15)])
		case 4, 5: // unknown options, often several
			if len(names) > 0 && r.Intn(3) == 0 { // a near miss of known names (a typo)
				if t := typoBetween(r, names); t != "" {
					sc.Argv = append(sc.Argv, "--"+t)
					break
				}
				w := names[r.Intn(len(names))]
				if len(w) >= 4 {
					p := r.Intn(len(w))
					sc.Argv = append(sc.Argv, "--"+w[:p]+string(rune('a'+r.Intn(26)))+w[p+r.Intn(2):])
					break
				}
			}
			sc.Argv = append(sc.Argv, unknowns[r.Intn(len(unknowns))])
			if r.Intn(2) == 0 {
				sc.Argv = append(sc.Argv, unknowns[r.Intn(len(unknowns))])
			}
		case 6: // command
			if len(cur.Subs) > 0 {
				cur = &cur.Subs[r.Intn(len(cur.Subs))]
				sc.Argv = append(sc.Argv, cur.Name)
				names = append(names, allNames(cur)...)
			} else {
				sc.Argv = append(sc.Argv, "help")
			}
		case 7:
			if len(cur.Subs) > 0 && r.Intn(4) == 0 { // a display name given through Self, not a command key
				sc.Argv = append(sc.Argv, []string{"tool", "cmd"}[r.Intn(2)])
				break
			}
			sc.Argv = append(sc.Argv, []string{"pos", "help", "sub", "-", "b", "--", "--help", "-?", "c", "s", "lo", "log", "t", "cl"}[r.Intn(14)])
		case 8: // short forms (mode dependent)
			if len(names) > 0 {
				sc.Argv = append(sc.Argv, "-"+names[r.Intn(len(names))][:1]+names[r.Intn(len(names))][:1])
			}
		case 9:
			if len(names) > 0 {
				sc.Argv = append(sc.Argv, "-"+names[r.Intn(len(names))])
			}
		}

	}
	// environment for GetEnv options
	var collect func(c *CmdDef)
	collect = func(c *CmdDef) {
		for i := range c.Opts {
			if c.Opts[i].Env != "" && r.Intn(3) != 0 {
				if r.Intn(5) == 0 {
					// the exact name stays unset; two spellings that differ from it only in case are set
					n := c.Opts[i].Env
					sc.Env = append(sc.Env, [2]string{strings.ToLower(n), "from-lower"}, [2]string{n[:1] + strings.ToLower(n[1:]), "from-mixed"})
					continue
				}
				sc.Env = append(sc.Env, [2]string{c.Opts[i].Env, valueFor(r, &c.Opts[i])})
			}
		}
		for i := range c.Subs {
			collect(&c.Subs[i])
		}
	}
	collect(&sc.Root)
	// one value per variable name (options of different nodes may name the same variable)
	seenEnv := map[string]bool{}
	var env [][2]string
	for _, kv := range sc.Env {
		if !seenEnv[kv[0]] {
			seenEnv[kv[0]] = true
			env = append(env, kv)
		}
	}
	sc.Env = env
	// COMP_LINE
	cl := []string{"prog"}
	cc := &sc.Root
	for cc != nil && len(cc.Subs) > 0 && r.Intn(2) == 0 {
		cc = &cc.Subs[r.Intn(len(cc.Subs))]
		cl = append(cl, cc.Name)
	}
	last := []string{"", "-", "--", "--v", "--f", "b", "--fo", "--val=", "he", "c", "t", "--ver", "--b", "a", "ap", "--q", "lo", "log", "s", "sh"}[r.Intn(20)]
	if len(cc.Subs) > 0 && r.Intn(5) == 0 { // the word being completed is exactly a command name
		last = cc.Subs[r.Intn(len(cc.Subs))].Name
	}
	if ns := allNames(cc); len(ns) > 0 && r.Intn(3) == 0 {
		w := ns[r.Intn(len(ns))]
		switch r.Intn(3) {
		case 0:
			last = "--" + w + "="
		case 1:
			last = "--" + w[:1+r.Intn(len(w))]
		case 2:
			last = "--" + w + "=a"
		}
	}
	// value completion: aim at an option that has suggested/valid values, with a partial value
	var withVals []*OptDef
	for i := range cc.Opts {
		if len(cc.Opts[i].Suggested)+len(cc.Opts[i].Valid) > 0 {
			withVals = append(withVals, &cc.Opts[i])
		}
	}
	if len(withVals) > 0 && r.Intn(2) == 0 {
		o := withVals[r.Intn(len(withVals))]
		vals := append(append([]string(nil), o.Suggested...), o.Valid...)
		v := vals[r.Intn(len(vals))]
		name := o.Name
		if len(o.Aliases) > 0 && r.Intn(3) == 0 {
			name = o.Aliases[r.Intn(len(o.Aliases))]
		}
		last = "--" + name + "=" + v[:r.Intn(len(v)+1)]
	}
	if special == "complete:v" {
		cl, last = []string{"prog"}, []string{"v", "", "v1"}[r.Intn(3)]
	}
	if special == "complete:help" {
		cl, last = []string{"prog", "help"}, []string{"", "b", "c", "cl", "l", "lo", "log", "s", "t", "v", "v1", "r"}[r.Intn(12)]
	}
	cl = append(cl, last)
	sc.CompLine = strings.Join(cl, " ")
	if r.Intn(6) == 0 {
		sc.CompLine += " "
	}
	if r.Intn(10) == 0 {
		sc.CompLine = strings.Replace(sc.CompLine, " ", "  ", 1)
	}
	if r.Intn(12) == 0 {
		// what a shell hands over in the middle of a quoted or escaped word
		sc.CompLine += []string{` "hello wor`, ` 'it`, `\`, ` \"`, ` --msg="a b`}[r.Intn(5)]
	}
	sc.SelfEmpty = r.Intn(10) == 0
	return sc
}

// grandChildren lists the names of the commands two levels below c.
func grandChildren(c *CmdDef) []string {
	var out []string
	for i := range c.Subs {
		for j := range c.Subs[i].Subs {
			out = append(out, c.Subs[i].Subs[j].Name)
		}
	}
	return out
}

func editDistance(a, b string) int {
	prev := make([]int, len(b)+1)
	cur := make([]int, len(b)+1)
	for j := range prev {
		prev[j] = j
	}
	for i := 1; i <= len(a); i++ {
		cur[0] = i
		for j := 1; j <= len(b); j++ {
			c := 1
			if a[i-1] == b[j-1] {
				c = 0
			}
			cur[j] = prev[j-1] + c
			if prev[j]+1 < cur[j] {
				cur[j] = prev[j] + 1
			}
			if cur[j-1]+1 < cur[j] {
				cur[j] = cur[j-1] + 1
			}
		}
		prev, cur = cur, prev
	}
	return prev[len(b)]
}

// typoBetween returns a word that is not a known name but is exactly one edit away from at least
// two known names (a typo with several equally good corrections), or "".
func typoBetween(r *simrt.RNG, names []string) string {
	known := map[string]bool{}
	for _, n := range names {
		known[n] = true
	}
	var cands []string
	for _, w := range names {
		if len(w) < 4 {
			continue
		}
		letters := "x"
		for _, o := range names {
			if o != w && len(o) >= 3 && editDistance(w, o) <= 2 {
				letters += o
			}
		}
		if letters == "x" {
			continue
		}
		try := func(c string) {
			if known[c] || len(c) < 4 {
				return
			}
			n := 0
			for _, o := range names {
				if editDistance(c, o) == 1 {
					n++
				}
			}
			if n >= 2 {
				cands = append(cands, c)
			}
		}
		for p := 0; p <= len(w); p++ {
			for i := 0; i < len(letters); i++ {
				try(w[:p] + letters[i:i+1] + w[p:]) // insertion
				if p < len(w) {
					try(w[:p] + letters[i:i+1] + w[p+1:]) // substitution
				}
			}
			if p < len(w) {
				try(w[:p] + w[p+1:]) // deletion
			}
		}
	}
	if len(cands) == 0 {
		return ""
	}
	return cands[r.Intn(len(cands))]
}

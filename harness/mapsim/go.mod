module verif/mapsim

go 1.23

require (
	github.com/DavidGamba/go-getoptions v0.0.0
	verif/simrt v0.0.0
)

replace github.com/DavidGamba/go-getoptions => ../../../SCRATCH_REPO

replace verif/simrt => ../../simrt

#!/bin/bash
# Fidelity of the rewriter (DESIGN §8.3): instrument a scratch copy of /repo exactly as the checks do, build it
# against the PASSTHROUGH implementation of simrt (every call maps to the real primitive, native map order) and run
# the repository's own test suite on the instrumented copy. It must pass unchanged.
set -u
cd "$(dirname "$0")/.."
export GOFLAGS=-mod=mod GOPROXY=off GOSUMDB=off GOTOOLCHAIN=local GOWORK=off
D=$(mktemp -d); trap 'rm -rf $D' EXIT
rsync -a --exclude .git /repo/ $D/repo/
(cd simgo && go build -o $D/simgo .) || exit 2
(cd $D/repo && $D/simgo -q ./dag && $D/simgo -q -maponly . ./internal/option ./internal/help ./internal/completion ./internal/sliceiterator ./text) || exit 2
cd $D/repo
printf '\nrequire verif/simrt v0.0.0\n\nreplace verif/simrt => /verif/simrt\n' >> go.mod
n=${1:-3}; rc=0
for i in $(seq 1 $n); do
  go test -tags passthrough -vet=off -count=1 . ./dag ./internal/... 2>&1 | grep -v "no test files" | tail -8 || rc=1
  [ ${PIPESTATUS[0]} = 0 ] || rc=1
done
[ $rc = 0 ] && echo "passthrough fidelity: OK ($n runs of the repository's tests on the instrumented copy)" || echo "passthrough fidelity: FAILED"
exit $rc

//go:build passthrough

package main

import (
	"encoding/json"
	"fmt"
	"os"
	"runtime"
)

func main() {
	res := map[string]map[string]int{}
	for _, p := range progs {
		res[p.name] = map[string]int{}
		for i := 0; i < 3000; i++ {
			if i%500 == 0 {
				runtime.GOMAXPROCS([]int{1, 2, 4, 16}[(i/500)%4])
			}
			res[p.name][p.run()]++
		}
	}
	b, _ := json.Marshal(res)
	fmt.Fprintln(os.Stdout, string(b))
}

// Micro-programs written against the simrt API. Built normally they run on the simulated runtime,
// built with -tags passthrough on the real one; the sets of outcomes are compared (real ⊆ sim).
package main

import (
	"fmt"
	"sort"
	"strings"
	"time"

	"verif/simrt"
)

type prog struct {
	name string
	run  func() string
}

var progs = []prog{
	{"producer-consumer-buffered", func() string {
		ch := simrt.Make[int](2)
		var mu simrt.Mutex
		var got []string
		fin := simrt.Make[int](2)
		for c := 0; c < 2; c++ {
			c := c
			simrt.Go(func() {
				for {
					v, ok := simrt.Recv2(ch)
					if !ok {
						break
					}
					mu.Lock()
					got = append(got, fmt.Sprintf("c%d:%d", c, v))
					mu.Unlock()
				}
				simrt.Send(fin, c)
			})
		}
		for i := 0; i < 4; i++ {
			simrt.Send(ch, i)
		}
		simrt.Close(ch)
		simrt.Recv(fin)
		simrt.Recv(fin)
		// who consumed what, order of consumption per consumer
		per := map[string][]string{}
		for _, g := range got {
			p := strings.SplitN(g, ":", 2)
			per[p[0]] = append(per[p[0]], p[1])
		}
		return fmt.Sprint("c0=", per["c0"], " c1=", per["c1"])
	}},
	{"semaphore-peak-and-order", func() string {
		sem := simrt.Make[struct{}](2)
		done := simrt.Make[int]()
		var mu simrt.Mutex
		running, peak := 0, 0
		for w := 0; w < 4; w++ {
			w := w
			simrt.Go(func() {
				simrt.Send(sem, struct{}{})
				mu.Lock()
				running++
				if running > peak {
					peak = running
				}
				mu.Unlock()
				simrt.Sleep(time.Duration(w+1) * 200 * time.Microsecond)
				mu.Lock()
				running--
				mu.Unlock()
				simrt.Recv(sem)
				simrt.Send(done, w)
			})
		}
		var order []int
		for i := 0; i < 4; i++ {
			order = append(order, simrt.Recv(done))
		}
		sort.Ints(order)
		return fmt.Sprint("peak=", peak, " all=", order)
	}},
	{"poll-loop-sees-all-completions", func() string {
		done := simrt.Make[int]()
		for w := 0; w < 3; w++ {
			w := w
			simrt.Go(func() { simrt.Sleep(time.Duration(w) * 300 * time.Microsecond); simrt.Send(done, w) })
		}
		n, polls := 0, 0
		for n < 3 {
			switch r := simrt.Select(true, simrt.CaseRecv(done)); r.I {
			case 0:
				n++
			default:
				polls++
				simrt.Sleep(100 * time.Microsecond)
			}
		}
		return fmt.Sprint("n=", n, " polled=", polls > 0)
	}},
	{"select-two-ready", func() string {
		a, b := simrt.Make[int](1), simrt.Make[int](1)
		simrt.Send(a, 1)
		simrt.Send(b, 2)
		r := simrt.Select(false, simrt.CaseRecv(a), simrt.CaseRecv(b))
		return fmt.Sprint("case=", r.I)
	}},
	{"unbuffered-handoff-order", func() string {
		ch := simrt.Make[int]()
		out := simrt.Make[string](4)
		simrt.Go(func() { simrt.Send(ch, 1); simrt.Send(out, "sent") })
		simrt.Go(func() { v := simrt.Recv(ch); simrt.Send(out, fmt.Sprint("got", v)) })
		x, y := simrt.Recv(out), simrt.Recv(out)
		return x + "," + y
	}},
	{"mutex-three-lockers", func() string {
		var mu simrt.Mutex
		out := simrt.Make[int](3)
		mu.Lock()
		for w := 0; w < 3; w++ {
			w := w
			simrt.Go(func() { mu.Lock(); simrt.Send(out, w); mu.Unlock() })
		}
		simrt.Sleep(200 * time.Microsecond)
		mu.Unlock()
		return fmt.Sprint(simrt.Recv(out), simrt.Recv(out), simrt.Recv(out))
	}},
	{"close-wakes-all", func() string {
		ch := simrt.Make[int]()
		out := simrt.Make[bool](3)
		for w := 0; w < 3; w++ {
			simrt.Go(func() { _, ok := simrt.Recv2(ch); simrt.Send(out, ok) })
		}
		simrt.Sleep(100 * time.Microsecond)
		simrt.Close(ch)
		return fmt.Sprint(simrt.Recv(out), simrt.Recv(out), simrt.Recv(out))
	}},
}

module verif/differential

go 1.23

require verif/simrt v0.0.0

replace verif/simrt => ../../simrt

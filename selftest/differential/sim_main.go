//go:build !passthrough

package main

import (
	"encoding/json"
	"fmt"
	"os"

	"verif/simrt"
)

func main() {
	res := map[string]map[string]int{}
	for _, p := range progs {
		res[p.name] = map[string]int{}
		for seed := 0; seed < 3000; seed++ {
			pol := simrt.Policy{Kind: []string{"uniform", "sticky", "pct", "rr"}[seed%4], Sticky: 0.7, PCTDepth: 2, PCTSpan: 40, ClockP: []float64{0, 0.2}[seed%2]}
			var out string
			s := simrt.Run(simrt.Config{Chooser: simrt.NewRandomChooser(uint64(seed), pol, false), ClockAdvance: pol.ClockP > 0}, func() { out = p.run() })
			if s.Verdict() != simrt.VOK {
				out = "VERDICT " + string(s.Verdict())
			}
			res[p.name][out]++
		}
	}
	b, _ := json.Marshal(res)
	fmt.Fprintln(os.Stdout, string(b))
}

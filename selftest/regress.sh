#!/bin/bash
# regress.sh [budget]: full sensitivity + no-alarm regression of the machinery (scratch copies only).
#   own mutants (selftest/mutants), every seeded change (seeded/*/patch.diff), every behaviour-preserving refactor.
cd "$(dirname "$0")/.."
B=${1:-12}
args=""; for f in selftest/mutants/*.patch; do args="$args $f $(basename $f | cut -d. -f1)"; done
for d in seeded/*/; do
  e=$(python3 -c "import json;print(json.load(open('$d/meta.json')).get('expect','caught'))")
  [ "$e" = missed ] && { echo "SKIPPED $(basename $d): recorded as not detected by decision (see its meta.json)"; continue; }
  p=$(python3 -c "import json;print(json.load(open('$d/meta.json'))['property'])"); args="$args $d/patch.diff $p"; done
./selftest/sensitivity.sh -b $B $args
na=""; for f in selftest/refactors/R1-*.patch selftest/refactors/R2-*.patch selftest/refactors/S1-*.patch selftest/refactors/S2-*.patch selftest/refactors/T1-*.patch selftest/refactors/U1-*.patch selftest/refactors/U2-*.patch selftest/refactors/V5-*.patch selftest/refactors/W1-*.patch selftest/refactors/X1-*.patch selftest/refactors/Y1-*.patch; do [ -f $f ] || continue; for p in C13 C14 C15 C16; do na="$na $f $p"; done; done
./selftest/noalarm.sh -b 8 $na
n3=""; for f in selftest/refactors/R3-*.patch; do n3="$n3 $f C20"; done
BASE_REV=3e9d072 ./selftest/noalarm.sh -b 8 $n3
n4=""; for f in selftest/refactors/S3-*.patch selftest/refactors/T2-*.patch selftest/refactors/U3-*.patch selftest/refactors/V6-*.patch selftest/refactors/W2-*.patch selftest/refactors/X2-*.patch selftest/refactors/Y2-*.patch; do n4="$n4 $f C20"; done
./selftest/noalarm.sh -b 8 $n4
./selftest/reach.sh 10

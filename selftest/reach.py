#!/usr/bin/env python3
"""reach.py <evidence.json> <property>: the probes and fault kinds that must be non-zero on the pinned tree."""
import json
import sys

ev = json.load(open(sys.argv[1]))
prop = sys.argv[2]
c = ev["coverage"]
probes = c.get("probes", {})
faults = c.get("fault_kinds_fired", {})
DAG_COMMON = ["settled_points", "mutex_contended", "chan_send_blocked", "map_order_nonsorted", "shared_task_ran_in_both_graphs",
              "shared_task_ran_in_three_graphs", "dfs_while_running", "task_error", "skip_parents", "skip_parents_wrapped",
              "skip_parents_joined", "skip_parents_custom_is", "cancel_external", "cancel_in_task", "cancel_before_run",
              "stall_task", "clock_advance_while_runnable", "writer_yield", "writer_error", "log_writer_error", "big_output",
              "nested_graph_run", "set_max_parallel_during_run", "starve_goroutine"]
need = {
    "C13": DAG_COMMON + ["task_error_transient", "transient_then_ok"],
    "C14": DAG_COMMON + ["cancel_observed", "cancel_observed_with_tasks_in_flight", "launches_between_cancel_and_observation",
                         "cancel_not_reported_fewer_than_3_idle_cycles", "failure_while_others_in_flight", "task_error_wraps_context_error",
                         "task_error_is_errors_value"],
    "C15": DAG_COMMON + ["retry_at_parallelism_limit", "alternate_task_object_executed"],
    "C16": DAG_COMMON + ["settled_checks", "rerun_on_extended_graph", "run_again_on_same_graph", "runs_with_definition_errors"],
    "C20": ["map_order_decisions_nonsorted", "fresh_process_cross_checks", "ambiguity_diagnostic_seen", "missing_required_diagnostic_seen",
            "unknown_option_diagnostic_seen", "completion_lists_with_2plus_entries", "argv_with_2plus_unknown_options",
            "definitions_with_2plus_commands", "definitions_with_2plus_required_options_at_root", "dispatch_ran_a_command"],
}[prop]
zero = [n for n in need if not probes.get(n) and not faults.get(n)]
print("reach %s: %d evaluations, %d probes and %d fault kinds non-zero%s" % (
    prop, c.get("evaluations", 0), sum(1 for v in probes.values() if v), sum(1 for v in faults.values() if v),
    "" if not zero else "; ZERO: " + ", ".join(zero)))
sys.exit(1 if zero else 0)

#!/bin/bash
# sensitivity.sh [-t] [-b SECONDS] <patch> <property> [more "<patch> <property>" pairs ...]
# For each pair: apply the patch to a scratch copy of /repo (never to /repo itself), optionally (-t) run the
# repository's own test suite on it (must still pass, otherwise the change is not interesting), then run the
# property's check against the scratch copy. The check must exit 1 with a VIOLATION line and the replay file must
# reproduce. Evidence and replays of these runs go to a temp dir, not to /verif/evidence.
# Exit 0 = every mutant was caught; 1 = at least one was missed (or a replay failed).
set -u
cd "$(dirname "$0")/.."
export GOFLAGS=-mod=mod GOPROXY=off GOSUMDB=off GOTOOLCHAIN=local GOWORK=off
TESTS=0; BUDGET=15
while getopts "tb:" o; do case $o in t) TESTS=1;; b) BUDGET=$OPTARG;; esac; done; shift $((OPTIND-1))
missed=0
while [ $# -ge 2 ]; do
  patch=$(readlink -f "$1"); prop=$2; shift 2
  D=$(mktemp -d)
  rsync -a --exclude .git /repo/ $D/repo/
  if ! (cd $D/repo && git apply --unsafe-paths -p1 "$patch" 2>/dev/null || patch -s -p1 < "$patch"); then echo "ERROR  $prop $(basename $(dirname $patch))/$(basename $patch): patch does not apply"; missed=1; rm -rf $D; continue; fi
  tests="-"
  if [ $TESTS = 1 ]; then
    if (cd $D/repo && go build ./... && go test -vet=off -count=1 ./... >/dev/null 2>&1); then tests=pass; else tests=FAIL; fi
  fi
  out=$(VERIF_REPO=$D/repo VERIF_EVIDENCE_DIR=$D/ev VERIF_REPLAY_DIR=$D/replays ./bin/check $prop --budget $BUDGET 2>&1); code=$?
  line=$(echo "$out" | grep "^VIOLATION" | head -1)
  oracle=$(echo "$out" | grep -m1 "^  O" | cut -c1-150)
  if [ $code = 1 ] && [ -n "$line" ]; then
    rp=$(echo "$line" | sed 's/.*replay=//')
    VERIF_REPO=$D/repo ./bin/check $prop --replay $rp >/dev/null 2>&1; rc=$?
    if [ $rc = 1 ]; then echo "CAUGHT $prop $(basename $(dirname $patch))/$(basename $patch) tests=$tests replay=ok |$oracle"; else echo "REPLAY-FAILED($rc) $prop $(basename $(dirname $patch))/$(basename $patch)"; missed=1; fi
  else
    echo "MISSED($code) $prop $(basename $(dirname $patch))/$(basename $patch) tests=$tests $(echo "$out" | grep -m1 INCONCLUSIVE)"; missed=1
  fi
  rm -rf $D
done
exit $missed

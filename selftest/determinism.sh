#!/bin/bash
# Determinism self-test (DESIGN §8.1). One seed must be one execution:
#  - the same run indices executed in many OS processes at GOMAXPROCS 1, 4 and 16 give identical event-log hashes,
#  - batch-position independence: the same runs after 1000 other runs in the same process give identical hashes,
#  - every recorded decision log replays by name to the identical event log,
#  - static: no map iteration / sync.Map.Range / wall clock / math/rand in simrt's non-test code.
# Exit 0 = deterministic; 1 = a mismatch (machinery bug, fix before trusting any verdict).
set -u
cd "$(dirname "$0")/.."
export GOFLAGS=-mod=mod GOPROXY=off GOSUMDB=off GOTOOLCHAIN=local GOWORK=off
N=${1:-300}
D=$(mktemp -d)
trap 'rm -rf $D' EXIT
fail=0
./bin/devbuild dagsim /repo $D/dag >/dev/null || exit 2
./bin/devbuild mapsim /repo $D/map >/dev/null || exit 2
echo "== static checks"
(cd simrt && go test -count=1 -run TestNoHiddenNondeterminismInSimrt . >/dev/null) || { echo "FAIL: simrt static test"; fail=1; }
if grep -n "\.Range(\|math/rand\|crypto/rand" simrt/*.go harness/*/*.go | grep -v _test.go; then echo "FAIL: forbidden nondeterminism source"; fail=1; fi
if grep -n "time\.Now()\|time\.Since(" simrt/*.go | grep -v "_test.go\|passthrough.go"; then echo "FAIL: wall clock read in simrt"; fail=1; fi
echo "== process x GOMAXPROCS matrix ($N runs per slice, 4 slices, 3 GOMAXPROCS values, 3 repeats = 36 processes per property)"
for prop in C13 C14 C15 C16; do
  for slice in 0 1 2 3; do
    for gmp in 1 4 16; do for rep in 1 2 3; do
      GOMAXPROCS=$gmp $D/dag/bin/dagsim -prop $prop -seed 7 -worker $slice -workers 4 -dethash $N > $D/h.$prop.$slice.$gmp.$rep &
    done; done
    wait
    ref=$D/h.$prop.$slice.1.1
    [ -s $ref ] || { echo "FAIL: empty output $ref"; fail=1; }
    for f in $D/h.$prop.$slice.*; do cmp -s $ref $f || { echo "FAIL: $f differs from $ref"; diff $ref $f | head -3; fail=1; }; done
  done
done
echo "== batch-position independence"
for prop in C13 C16; do
  $D/dag/bin/dagsim -prop $prop -seed 7 -dethash 200 > $D/p0
  $D/dag/bin/dagsim -prop $prop -seed 7 -dethash 200 -skip 1000 > $D/p1
  cmp -s $D/p0 $D/p1 || { echo "FAIL: $prop hashes depend on batch position"; diff $D/p0 $D/p1 | head -3; fail=1; }
done
echo "== replay by name"
for prop in C13 C14 C15 C16; do $D/dag/bin/dagsim -prop $prop -seed 11 -replaytest 1500 || fail=1; done
echo "== mapsim across processes"
for gmp in 1 4 16; do for rep in 1 2; do GOMAXPROCS=$gmp $D/map/bin/mapsim -seed 7 -dethash 150 > $D/m.$gmp.$rep & done; done; wait
for f in $D/m.*; do cmp -s $D/m.1.1 $f || { echo "FAIL: mapsim $f differs"; fail=1; }; done
[ -s $D/m.1.1 ] || { echo "FAIL: empty mapsim output"; fail=1; }
if [ $fail = 0 ]; then echo "determinism self-test: OK"; else echo "determinism self-test: FAILED"; fi
exit $fail

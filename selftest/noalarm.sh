#!/bin/bash
# noalarm.sh [-b SECONDS] <patch> <property> [...]: apply a BEHAVIOUR-PRESERVING patch to a scratch copy of /repo and
# (BASE_REV=<commit> builds the scratch copy from that commit of /repo instead of the working tree) run the property's check against it: the check must exit 0 (no alarm, not inconclusive).
set -u
cd "$(dirname "$0")/.."
BUDGET=15
while getopts "b:" o; do case $o in b) BUDGET=$OPTARG;; esac; done; shift $((OPTIND-1))
bad=0
while [ $# -ge 2 ]; do
  patch=$(readlink -f "$1"); prop=$2; shift 2
  D=$(mktemp -d)
  if [ -n "${BASE_REV:-}" ]; then mkdir -p $D/repo; git -C /repo archive $BASE_REV | tar -x -C $D/repo; else rsync -a --exclude .git /repo/ $D/repo/; fi
  if ! (cd $D/repo && git apply --unsafe-paths -p1 "$patch" 2>/dev/null || patch -s -p1 < "$patch"); then echo "ERROR  $prop $(basename $(dirname $patch)): patch does not apply"; bad=1; rm -rf $D; continue; fi
  out=$(VERIF_REPO=$D/repo VERIF_EVIDENCE_DIR=$D/ev VERIF_REPLAY_DIR=$D/replays ./bin/check $prop --budget $BUDGET 2>&1); code=$?
  if [ $code = 0 ]; then echo "QUIET  $prop $(basename $patch .patch) $(echo "$out" | grep -o 'runs=[0-9]*')"; else echo "ALARM($code) $prop $(basename $patch .patch) $(echo "$out" | grep -m2 'INCONCLUSIVE\|^  O\|UNSUPPORTED' | tr '\n' ' ' | cut -c1-300)"; bad=1; mkdir -p /tmp/noalarm-keep; cp -r $D/replays /tmp/noalarm-keep/$(basename $(dirname $patch))-$prop 2>/dev/null; fi
  rm -rf $D
done
exit $bad

#!/bin/bash
# latency.sh [budget]: for every own mutant and seeded change, how quickly does the QUICK configuration find it?
# Prints "<property> <id> <seconds until the first worker found it> <runs of that worker>" (or MISSED).
cd "$(dirname "$0")/.."
B=${1:-25}
list=""; for f in selftest/mutants/*.patch; do list="$list $f:$(basename $f | cut -d. -f1)"; done
for d in seeded/*/; do
  [ "$(python3 -c "import json;print(json.load(open('$d/meta.json')).get('expect','caught'))")" = missed ] && continue
  p=$(python3 -c "import json;print(json.load(open('$d/meta.json'))['property'])"); list="$list $d/patch.diff:$p"; done
for item in $list; do
  patch=$(readlink -f ${item%%:*}); prop=${item##*:}
  D=$(mktemp -d); rsync -a --exclude .git /repo/ $D/repo/
  (cd $D/repo && git apply --unsafe-paths -p1 "$patch" 2>/dev/null || patch -s -p1 < "$patch") || { echo "$prop $(basename $(dirname $patch)) PATCH-FAILED"; rm -rf $D; continue; }
  out=$(VERIF_REPO=$D/repo VERIF_EVIDENCE_DIR=$D/ev VERIF_REPLAY_DIR=$D/rp ./bin/check $prop --budget $B 2>&1); code=$?
  best=$(echo "$out" | grep -o "found by its worker after [0-9]* runs, [0-9.]* s" | awk '{print $8, $6}' | sort -n | head -1)
  name=$(basename $(dirname $patch)); [ "$name" = mutants ] && name=$(basename $patch .patch)
  if [ $code = 1 ]; then echo "$prop $name ${best:-?}"; else echo "$prop $name MISSED($code)"; fi
  rm -rf $D
done

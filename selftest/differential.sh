#!/bin/bash
# Differential test of the runtime model (DESIGN §8.3): micro-programs written against the simrt API are run
# 3000 times each on the simulated runtime (all scheduler policies) and 3000 times on the real runtime
# (GOMAXPROCS 1,2,4,16); every outcome the real runtime shows must be among the outcomes the simulation produces.
set -u
cd "$(dirname "$0")/differential"
export GOFLAGS=-mod=mod GOPROXY=off GOSUMDB=off GOTOOLCHAIN=local GOWORK=off
D=$(mktemp -d); trap 'rm -rf $D' EXIT
go build -o $D/sim . && go build -tags passthrough -o $D/real . || exit 2
$D/sim > $D/sim.json && $D/real > $D/real.json || exit 2
python3 - $D <<'PY'
import json,sys
d=sys.argv[1]
sim=json.load(open(d+'/sim.json')); real=json.load(open(d+'/real.json'))
bad=0
for name in sim:
    s,r=set(sim[name]),set(real[name])
    extra=r-s
    print("%-34s sim outcomes=%d real outcomes=%d real-only=%s" % (name,len(s),len(r),sorted(extra)))
    if extra: bad=1
    if any(k.startswith("VERDICT") for k in s): print("   simulated run ended abnormally:", [k for k in s if k.startswith("VERDICT")]); bad=1
print("differential: OK (real ⊆ sim for every program)" if not bad else "differential: FAILED")
sys.exit(bad)
PY

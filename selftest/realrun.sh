#!/bin/bash
# Real-runtime cross-check (DESIGN §14.4): the SAME harness and oracles, built with -tags passthrough against the
# UNINSTRUMENTED /repo, run generated scenarios with real goroutines, channels and clock (optionally under -race).
# Disagreements = oracle alarms on real executions of the unchanged implementation: there must be none.
# usage: realrun.sh [runs-per-process] [processes] [-race]
set -u
cd "$(dirname "$0")/.."
export GOFLAGS=-mod=mod GOPROXY=off GOSUMDB=off GOTOOLCHAIN=local GOWORK=off
N=${1:-150}; P=${2:-8}; RACE=${3:-}
D=$(mktemp -d); trap 'rm -rf $D' EXIT
rsync -a --exclude .git ${VERIF_REPO:-/repo}/ $D/repo/
printf 'module verif/dagsim\n\ngo 1.23\n\nrequire (\n\tgithub.com/DavidGamba/go-getoptions v0.0.0\n\tverif/simrt v0.0.0\n)\n\nreplace github.com/DavidGamba/go-getoptions => %s\n\nreplace verif/simrt => /verif/simrt\n' $D/repo > $D/real.mod
: > $D/real.sum
(cd harness/dagsim && go build $RACE -tags passthrough -modfile=$D/real.mod -o $D/dagsim-real .) || exit 2
rc=0
for prop in C13 C14 C15 C16; do
  for w in $(seq 0 $((P-1))); do $D/dagsim-real -prop $prop -seed ${VERIF_SEED:-1} -worker $w -workers $P -realruns $N > $D/o.$prop.$w 2>$D/e.$prop.$w & done; wait
  python3 - $D $prop $P <<'PY'
import json,sys
d,prop,P=sys.argv[1],sys.argv[2],int(sys.argv[3])
tot={"Runs":0,"Disagreements":0,"Hung":0,"Multi":0}; ex=[]
for w in range(P):
    try: o=json.loads(open("%s/o.%s.%d"%(d,prop,w)).read().strip().splitlines()[-1])
    except Exception as e:
        print("worker",w,"failed:",open("%s/e.%s.%d"%(d,prop,w)).read()[-800:]); tot["Hung"]+=1; continue
    for k in tot: tot[k]+=o[k]
    ex+=o.get("Examples") or []
print(prop, tot, ex[:3])
sys.exit(1 if tot["Disagreements"] or tot["Hung"] else 0)
PY
  [ $? = 0 ] || rc=1
done
[ $rc = 0 ] && echo "real-runtime cross-check: OK" || echo "real-runtime cross-check: DISAGREEMENTS"
exit $rc

#!/bin/bash
# reach.sh [SECONDS]: on the pinned tree every oracle trigger and fault kind must actually come into play, including
# the ones that depend on the mechanism of the code under test (settled polling points for work conservation, polled
# ctx.Done() for the cancellation oracles, contended mutexes and blocked channel sends for the scheduler model, permuted
# map orders). bin/check itself only asserts the mechanism-independent ones (REQUIRED_REACH), because a legitimate
# rewrite may have none of these. A probe at zero here means a change of the simulator or harness silently switched a
# check off (it happened: DESIGN section 14.3, wave 10).
set -u
cd "$(dirname "$0")/.."
B=${1:-10}
D=$(mktemp -d); trap 'rm -rf $D' EXIT
bad=0
for p in C13 C14 C15 C16 C20; do
  VERIF_EVIDENCE_DIR=$D VERIF_REPLAY_DIR=$D/replays ./bin/check $p --budget $B >$D/$p.log 2>&1 || { echo "reach: check $p did not exit 0"; tail -3 $D/$p.log; bad=1; continue; }
  python3 selftest/reach.py $D/$p.json $p || bad=1
done
[ $bad = 0 ] && echo "reach self-test: OK" || { echo "reach self-test: FAILED"; exit 1; }

#!/bin/bash
# verify_seeded.sh <dir with patch.diff + demo_test.go> <package dir for the demo: dag|.>
# Confirms, in a scratch worktree of /repo (removed afterwards): the patch applies, the tree builds, the existing
# suite passes with it (3 runs), the demonstration fails with it and passes without it.
set -u
export GOFLAGS=-mod=mod GOPROXY=off GOSUMDB=off GOTOOLCHAIN=local GOWORK=off
d=$(readlink -f $1); pkg=$2
W=$(mktemp -d /tmp/vs.XXXXXX); rmdir $W
git -C /repo worktree add -q --detach $W HEAD || exit 2
trap 'git -C /repo worktree remove --force $W' EXIT
cd $W
cp $d/demo_test.go $pkg/zz_demo_test.go
if go test -vet=off -count=1 -timeout 120s ./$pkg >/dev/null 2>&1; then clean=pass; else clean=FAIL; fi
rm $pkg/zz_demo_test.go
git apply $d/patch.diff || { echo "RESULT $1 patch-does-not-apply"; exit 1; }
go build ./... || { echo "RESULT $1 does-not-build"; exit 1; }
suite=pass
for i in 1 2 3; do go test -vet=off -count=1 ./... >/dev/null 2>&1 || suite="FAIL(run $i)"; done
cp $d/demo_test.go $pkg/zz_demo_test.go
if go test -vet=off -count=1 -timeout 180s ./$pkg >/dev/null 2>&1; then mut=PASS-unexpected; else mut=fails; fi
echo "RESULT $1 demo-without-change=$clean suite-with-change=$suite demo-with-change=$mut"

#!/bin/bash
# simgo torture test: a package using every construct simgo rewrites is instrumented, built against the simulated
# runtime (300 seeds, all policies) and against the passthrough runtime; all runs must print the same line.
set -u
cd "$(dirname "$0")"
export GOFLAGS=-mod=mod GOPROXY=off GOSUMDB=off GOTOOLCHAIN=local GOWORK=off
D=$(mktemp -d); trap 'rm -rf $D' EXIT
cp -r pkg $D/pkg
(cd ../../simgo && go build -o $D/simgo .) || exit 2
(cd $D/pkg && $D/simgo -q .) || { echo "simgo failed"; exit 1; }
mkdir $D/main && cat > $D/main/go.mod <<EOM
module tmain

go 1.23

require (
	torture v0.0.0
	verif/simrt v0.0.0
)

replace torture => $D/pkg

replace verif/simrt => /verif/simrt
EOM
cat > $D/main/sim.go <<'EOM'
//go:build !passthrough

package main

import (
	"fmt"
	"os"
	"torture"
	"verif/simrt"
)

func main() {
	seen := map[string]int{}
	for seed := 0; seed < 300; seed++ {
		pol := simrt.Policy{Kind: []string{"uniform", "sticky", "pct", "rr"}[seed%4], Sticky: 0.7, PCTDepth: 2, PCTSpan: 60, ClockP: []float64{0, 0.2}[seed%2], MapMode: "shuffle"}
		var out string
		s := simrt.Run(simrt.Config{Chooser: simrt.NewRandomChooser(uint64(seed), pol, false), ClockAdvance: pol.ClockP > 0, YieldOnMake: true}, func() { out = torture.Run() })
		if s.Verdict() != simrt.VOK {
			out = "VERDICT " + string(s.Verdict()) + " " + s.PanicMsg()
		}
		seen[out]++
	}
	for k, v := range seen {
		fmt.Println(v, k)
	}
	if len(seen) != 1 {
		os.Exit(1)
	}
}
EOM
cat > $D/main/real.go <<'EOM'
//go:build passthrough

package main

import (
	"fmt"
	"torture"
)

func main() { fmt.Println(torture.Run()) }
EOM
cd $D/main
go build -o $D/sim . || { echo "instrumented package does not build (sim)"; exit 1; }
go build -tags passthrough -o $D/real . || { echo "instrumented package does not build (passthrough)"; exit 1; }
S=$($D/sim); rc=$?
R=$($D/real)
echo "sim : $S"
echo "real: $R"
[ $rc = 0 ] && [ "$(echo "$S" | cut -d' ' -f2-)" = "$R" ] && echo "simgo torture: OK" || { echo "simgo torture: FAILED"; exit 1; }

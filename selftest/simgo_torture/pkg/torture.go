// Package torture exercises the syntactic forms simgo has to rewrite. Run() must return the same
// string on the real runtime (passthrough) and under every simulated schedule.
package torture

import (
	"context"
	"fmt"
	"sort"
	"strings"
	"sync"
	"sync/atomic"
	"time"
)

type counter struct {
	sync.Mutex // embedded
	n          map[string]int
}

type box struct {
	mu   sync.RWMutex
	vals []int
	once sync.Once
	wg   sync.WaitGroup
}

type pipe chan int // named channel type (only used, never made through the name)

func (c *counter) add(k string) {
	c.Lock()
	defer c.Unlock()
	c.n[k]++
}

func worker(id int, in <-chan int, out chan<- string, done *int32) {
	for v := range in { // range over channel
		out <- fmt.Sprintf("w%d:%d", id, v)
	}
	atomic.AddInt32(done, 1)
}

// a defined channel type
type tokens chan struct{}

// a channel made while the package initialises (before any simulated run exists)
var pkgCh = make(chan int, 1)

// firstOf ends in a select whose clauses all return: the select is a terminating statement and the rewritten
// form has to stay one ("missing return" otherwise).
func firstOf(a <-chan int, stop <-chan struct{}) int {
	select {
	case v := <-a:
		return v
	case <-stop:
		return -1
	}
}

// park ends in an empty select (also a terminating statement).
func park(never bool) int {
	if !never {
		return 7
	}
	select {}
}

func Run() string {
	var log []string
	var logMu sync.Mutex
	say := func(s string) { logMu.Lock(); log = append(log, s); logMu.Unlock() }

	// 1. fan-out / fan-in with range-over-channel workers, go with a declared function
	in := make(chan int)
	out := make(chan string, 8)
	var finished int32
	for i := 0; i < 3; i++ {
		go worker(i, in, out, &finished)
	}
	for v := 0; v < 6; v++ {
		in <- v
	}
	close(in)
	var got []string
	for len(got) < 6 {
		got = append(got, (<-out)[3:]) // receive inside an expression
	}
	sort.Strings(got)
	say("fan:" + strings.Join(got, ","))

	// 2. labeled loop with select, default, break/continue, v,ok receive, len/cap
	tick := make(chan struct{}, 2)
	quit := make(chan bool)
	go func(n int) {
		for i := 0; i < n; i++ {
			tick <- struct{}{}
		}
		close(quit)
	}(4)
	ticks := 0
LOOP:
	for {
		select {
		case <-tick:
			ticks++
			continue LOOP
		case _, ok := <-quit:
			if !ok && len(tick) == 0 {
				break LOOP
			}
			if cap(tick) != 2 {
				say("cap?")
			}
		default:
			time.Sleep(time.Millisecond)
		}
	}
	say(fmt.Sprint("ticks:", ticks))

	// 3. embedded mutex, map range, go with method value, WaitGroup
	c := &counter{n: map[string]int{}}
	var wg sync.WaitGroup
	for _, k := range []string{"a", "b", "a", "c", "a"} {
		wg.Add(1)
		f := c.add
		go func(k string) { defer wg.Done(); f(k) }(k)
	}
	wg.Wait()
	var ks []string
	for k, v := range c.n { // range over map
		ks = append(ks, fmt.Sprintf("%s=%d", k, v))
	}
	sort.Strings(ks)
	say("count:" + strings.Join(ks, ","))

	// 4. RWMutex, Once, Cond
	b := &box{}
	cond := sync.NewCond(&sync.Mutex{})
	ready := false
	for i := 0; i < 3; i++ {
		b.wg.Add(1)
		go func(i int) {
			defer b.wg.Done()
			b.once.Do(func() { say("once") })
			cond.L.Lock()
			for !ready {
				cond.Wait()
			}
			cond.L.Unlock()
			b.mu.Lock()
			b.vals = append(b.vals, i)
			b.mu.Unlock()
		}(i)
	}
	time.Sleep(2 * time.Millisecond)
	cond.L.Lock()
	ready = true
	cond.Broadcast()
	cond.L.Unlock()
	b.wg.Wait()
	b.mu.RLock()
	n := len(b.vals)
	b.mu.RUnlock()
	say(fmt.Sprint("vals:", n))

	// 5. timers, tickers, time.After in select, context with timeout (everything asserted here holds for every
	// schedule: a slow receiver may lose ticks, a starved goroutine may be arbitrarily late)
	ctx, cancel := context.WithTimeout(context.Background(), 50*time.Millisecond)
	defer cancel()
	tk := time.NewTicker(10 * time.Millisecond)
	fired := 0
	timer := time.NewTimer(35 * time.Millisecond)
	start := time.Now()
T:
	for {
		select {
		case <-tk.C:
			fired++
		case <-timer.C:
			tk.Stop()
			break T
		case <-time.After(time.Hour):
			say("an hour passed?")
			break T
		}
	}
	say(fmt.Sprint("timer not early:", time.Since(start) >= 35*time.Millisecond, " fired>=0:", fired >= 0))
	<-ctx.Done()
	say(fmt.Sprint("ctx:", ctx.Err(), " not early:", time.Since(start) >= 50*time.Millisecond))

	// 6. atomics as a flag, sync.Map, select with a send case, nil channel case
	var flag atomic.Value
	var m sync.Map
	var p pipe
	res := make(chan int, 1)
	go func() {
		m.Store("k", 41)
		flag.Store(true)
	}()
	for flag.Load() == nil {
		time.Sleep(time.Millisecond)
	}
	v, _ := m.Load("k")
	select {
	case res <- v.(int) + 1:
	case <-p: // nil channel: never ready
		say("nil chan fired?")
	}
	say(fmt.Sprint("res:", <-res, " finished:", atomic.LoadInt32(&finished)))

	// 7. selects as terminating statements
	fa := make(chan int, 1)
	fstop := make(chan struct{})
	fa <- 5
	say(fmt.Sprint("firstOf:", firstOf(fa, fstop), " park:", park(false)))
	close(fstop)
	say(fmt.Sprint("firstOf stop:", firstOf(fa, fstop)))

	// 8. sorts (their comparisons are preemption points under the simulation); each goroutine sorts its own copy
	words := []string{"pear", "apple", "fig", "kiwi", "date", "plum"}
	sorted := make([][]string, 3)
	var swg sync.WaitGroup
	for i := range sorted {
		swg.Add(1)
		go func(i int) {
			defer swg.Done()
			c := append([]string(nil), words...)
			switch i {
			case 0:
				sort.Strings(c)
			case 1:
				sort.Slice(c, func(a, b int) bool { return c[a] < c[b] })
			case 2:
				sort.Sort(sort.StringSlice(c))
			}
			sorted[i] = c
		}(i)
	}
	swg.Wait()
	say(fmt.Sprint("sorted:", sorted[0], sorted[1][0], sorted[2][5]))

	// 9. range over a map whose keys have no order of their own (pointers, structs)
	type item struct {
		name string
		n    int
	}
	pa, pb, pc := &item{"a", 1}, &item{"b", 2}, &item{"c", 3}
	byPtr := map[*item]int{pa: 10, pb: 20, pc: 30}
	byVal := map[item]string{{"x", 1}: "one", {"y", 2}: "two"}
	sum, names := 0, []string{}
	for p, v := range byPtr {
		sum += v + p.n
	}
	for k := range byVal {
		names = append(names, k.name)
	}
	sort.Strings(names)
	say(fmt.Sprint("ptrmap:", sum, names))

	// 10. the package-level channel
	go func() { pkgCh <- 9 }()
	say(fmt.Sprint("pkgch:", <-pkgCh))

	// 11. a defined channel type used as a counting semaphore
	pool := make(tokens, 2)
	var twg sync.WaitGroup
	peak, cur := 0, 0
	var tmu sync.Mutex
	for i := 0; i < 4; i++ {
		twg.Add(1)
		go func() {
			defer twg.Done()
			pool <- struct{}{}
			tmu.Lock()
			cur++
			if cur > peak {
				peak = cur
			}
			tmu.Unlock()
			time.Sleep(time.Millisecond)
			tmu.Lock()
			cur--
			tmu.Unlock()
			<-pool
		}()
	}
	twg.Wait()
	select {
	case pool <- struct{}{}:
	default:
	}
	say(fmt.Sprint("tokens: peak<=2:", peak <= 2, " len:", len(pool), " cap:", cap(pool)))
	return strings.Join(log, ";")
}

module torture

go 1.16

package getoptions

// Demonstration of finding KF-4 against the real code: copy into the repository root (in-package
// test: it redirects completionWriter and exitFn) and run
//   go test -run TestVerifCompletionValueHint .
// Option "f" is a prefix of option "files"; "files" suggests a value ending in '='. Completing
// `--files=a=` yields the single candidate "a=", after which the code appends a value hint taken
// from `lastOpt` - the option the map iteration happened to visit last (f or files).

import (
	"bytes"
	"os"
	"testing"
)

func TestVerifCompletionValueHint(t *testing.T) {
	oldW, oldExit := completionWriter, exitFn
	defer func() { completionWriter, exitFn = oldW, oldExit; os.Unsetenv("COMP_LINE") }()
	exitFn = func(int) {}
	os.Setenv("COMP_LINE", "prog --files=a=")
	seen := map[string]int{}
	for i := 0; i < 300; i++ {
		var cw bytes.Buffer
		completionWriter = &cw
		opt := New()
		opt.String("files", "", opt.SuggestedValues("alpha", "beta", "a="))
		opt.Bool("f", false)
		_, _ = opt.Parse([]string{"prog", "--files=a=", "prog"})
		seen[cw.String()]++
	}
	if len(seen) != 1 {
		t.Fatalf("same definition and COMP_LINE, %d different completion lists: %q", len(seen), seen)
	}
}

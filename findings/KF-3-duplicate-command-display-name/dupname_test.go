package getoptions_test

// Demonstration of finding KF-3 against the real code: copy into the repository root and run
//   go test -run TestVerifDuplicateDisplayName .
// Two sibling commands given the same display name through Self(): before the fix the COMMANDS
// section of the parent's help shows the description of whichever command Go's randomized map
// iteration visited last, and `help <name>` prints the help of whichever it visited first.

import (
	"bytes"
	"context"
	"testing"

	"github.com/DavidGamba/go-getoptions"
)

func TestVerifDuplicateDisplayNameHelp(t *testing.T) {
	seen := map[string]int{}
	for i := 0; i < 300; i++ {
		opt := getoptions.New()
		opt.Self("prog", "a program")
		opt.NewCommand("run", "about run").Self("cmd", "description of run")
		opt.NewCommand("clone", "about clone").Self("cmd", "description of clone")
		seen[opt.Help()]++
	}
	if len(seen) != 1 {
		t.Fatalf("same definition, %d different help texts: %v", len(seen), seen)
	}
}

func TestVerifDuplicateDisplayNameHelpTopic(t *testing.T) {
	seen := map[string]int{}
	for i := 0; i < 300; i++ {
		var w bytes.Buffer
		getoptions.Writer = &w
		opt := getoptions.New()
		opt.Self("prog", "a program")
		fn := func(context.Context, *getoptions.GetOpt, []string) error { return nil }
		opt.NewCommand("run", "about run").Self("cmd", "description of run").SetCommandFn(fn)
		opt.NewCommand("clone", "about clone").Self("cmd", "description of clone").SetCommandFn(fn)
		opt.HelpCommand("help")
		remaining, err := opt.Parse([]string{"help", "cmd"})
		if err != nil {
			t.Fatal(err)
		}
		_ = opt.Dispatch(context.Background(), remaining)
		seen[w.String()]++
	}
	if len(seen) != 1 {
		t.Fatalf("same definition and input, %d different outputs of `help cmd`", len(seen))
	}
}

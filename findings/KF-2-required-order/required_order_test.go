package getoptions_test

// Demonstration of finding KF-2 against the real code: copy into the repository root and run
//   go test -run TestVerifRequiredOrder .
// Before the fix the missing-required diagnostic of Parse (and of Dispatch for a command's
// options) names whichever option Go's randomized map iteration visits first.

import (
	"context"
	"testing"

	"github.com/DavidGamba/go-getoptions"
)

func TestVerifRequiredOrderParse(t *testing.T) {
	seen := map[string]int{}
	for i := 0; i < 300; i++ {
		opt := getoptions.New()
		opt.String("alpha", "", opt.Required())
		opt.String("beta", "", opt.Required())
		opt.String("gamma", "", opt.Required())
		_, err := opt.Parse([]string{})
		if err == nil {
			t.Fatal("expected an error")
		}
		seen[err.Error()]++
	}
	if len(seen) != 1 {
		t.Fatalf("same definition, same input, %d different errors: %v", len(seen), seen)
	}
}

func TestVerifRequiredOrderDispatch(t *testing.T) {
	seen := map[string]int{}
	for i := 0; i < 300; i++ {
		opt := getoptions.New()
		cmd := opt.NewCommand("run", "").SetCommandFn(func(context.Context, *getoptions.GetOpt, []string) error { return nil })
		cmd.String("alpha", "", opt.Required())
		cmd.String("beta", "", opt.Required())
		cmd.String("gamma", "", opt.Required())
		remaining, err := opt.Parse([]string{"run"})
		if err != nil {
			t.Fatal(err)
		}
		err = opt.Dispatch(context.Background(), remaining)
		if err == nil {
			t.Fatal("expected an error")
		}
		seen[err.Error()]++
	}
	if len(seen) != 1 {
		t.Fatalf("same definition, same input, %d different errors: %v", len(seen), seen)
	}
}

package dag

// Demonstration of finding KF-1 against the real (uninstrumented) code: copy into dag/ and run
//   go test -run TestVerifReadd -timeout 20s ./dag
// Before the fix: HangsAfterReadd times out (Run never returns) and StartsEarly fails.

import (
	"context"
	"sync"
	"testing"
	"time"

	"github.com/DavidGamba/go-getoptions"
)

func TestVerifReaddHangs(t *testing.T) {
	Logger.SetOutput(discard{})
	fn := func(context.Context, *getoptions.GetOpt, []string) error { return nil }
	a, b := NewTask("a", fn), NewTask("b", fn)
	g := NewGraph("g")
	g.TaskDependsOn(a, b)
	g.AddTask(b) // re-adding a task that already has a dependent
	if err := g.Validate(nil); err != nil {
		t.Fatalf("Validate: %v", err)
	}
	done := make(chan error, 1)
	go func() { done <- g.Run(context.Background(), nil, nil) }()
	select {
	case err := <-done:
		if err != nil {
			t.Fatalf("Run: %v", err)
		}
	case <-time.After(3 * time.Second):
		t.Fatal("Run did not return within 3s: a waits for the orphaned vertex of b forever")
	}
}

func TestVerifReaddStartsEarly(t *testing.T) {
	Logger.SetOutput(discard{})
	var mu sync.Mutex
	var order []string
	mk := func(id string) *Task {
		return NewTask(id, func(context.Context, *getoptions.GetOpt, []string) error {
			time.Sleep(20 * time.Millisecond)
			mu.Lock()
			order = append(order, id)
			mu.Unlock()
			return nil
		})
	}
	b, c := mk("b"), mk("c")
	g := NewGraph("g")
	g.TaskDependsOn(b, c)
	g.AddTask(b) // b's edge to c is lost
	done := make(chan error, 1)
	go func() { done <- g.Run(context.Background(), nil, nil) }()
	select {
	case <-done:
	case <-time.After(3 * time.Second):
		t.Fatal("Run did not return")
	}
	mu.Lock()
	defer mu.Unlock()
	if len(order) != 2 || order[0] != "c" {
		t.Fatalf("b must run after its dependency c, got %v", order)
	}
}

type discard struct{}

func (discard) Write(p []byte) (int, error) { return len(p), nil }

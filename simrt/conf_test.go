//go:build !passthrough

package simrt

import (
	"context"
	"fmt"
	"sort"
	"testing"
	"time"
)

// Conformance tests of the runtime model (DESIGN §8.3): each rule of §3.4 on micro-programs, over
// many seeds; every outcome must lie in the hand-derived legal set, and the sets must be reached.

func runSeeds(t *testing.T, n int, pol Policy, body func(out *[]string)) map[string]int {
	t.Helper()
	res := map[string]int{}
	for seed := 0; seed < n; seed++ {
		var out []string
		s := Run(Config{Chooser: NewRandomChooser(uint64(seed), pol, false), ClockAdvance: pol.ClockP > 0}, func() { body(&out) })
		if s.Verdict() != VOK {
			res["verdict:"+string(s.Verdict())]++
			continue
		}
		res[fmt.Sprint(out)]++
	}
	return res
}

func keys(m map[string]int) []string {
	var k []string
	for s := range m {
		k = append(k, s)
	}
	sort.Strings(k)
	return k
}

func TestUnbufferedRendezvous(t *testing.T) {
	res := runSeeds(t, 200, Policy{Kind: "uniform"}, func(out *[]string) {
		ch := Make[int]()
		Go(func() { Send(ch, 1); *out = append(*out, "sent") })
		v := Recv(ch)
		*out = append(*out, fmt.Sprint("got", v))
	})
	// both orders of the two appends are legal, nothing else
	for k := range res {
		if k != "[sent got1]" && k != "[got1 sent]" {
			t.Fatalf("illegal outcome %s", k)
		}
	}
	if len(res) != 2 {
		t.Fatalf("expected both orders, got %v", res)
	}
}

func TestBufferedFIFOAndBlocking(t *testing.T) {
	res := runSeeds(t, 200, Policy{Kind: "uniform"}, func(out *[]string) {
		ch := Make[int](2)
		fin := Make[int]()
		Go(func() {
			for i := 0; i < 4; i++ {
				Send(ch, i)
			}
			Close(ch)
			Send(fin, 0)
		})
		for {
			v, ok := Recv2(ch)
			if !ok {
				break
			}
			*out = append(*out, fmt.Sprint(v))
		}
		Recv(fin)
	})
	if len(res) != 1 || res["[0 1 2 3]"] != 200 {
		t.Fatalf("FIFO broken: %v", res)
	}
}

func TestWaitQueueFIFO(t *testing.T) {
	// three senders block on an unbuffered channel in a known order; receives must see that order
	res := runSeeds(t, 300, Policy{Kind: "uniform"}, func(out *[]string) {
		ch := Make[int]()
		for i := 0; i < 3; i++ {
			i := i
			Go(func() { Sleep(time.Duration(i+1) * time.Millisecond); Send(ch, i) })
		}
		Sleep(10 * time.Millisecond)
		for i := 0; i < 3; i++ {
			*out = append(*out, fmt.Sprint(Recv(ch)))
		}
	})
	if len(res) != 1 || res["[0 1 2]"] != 300 {
		t.Fatalf("blocked senders not served FIFO: %v", res)
	}
}

func TestSelectDefaultAndChoice(t *testing.T) {
	res := runSeeds(t, 300, Policy{Kind: "uniform"}, func(out *[]string) {
		a, b := Make[int](1), Make[int](1)
		r := Select(true, CaseRecv(a), CaseRecv(b))
		*out = append(*out, fmt.Sprint(r.I))
		Send(a, 1)
		Send(b, 2)
		r = Select(false, CaseRecv(a), CaseRecv(b))
		*out = append(*out, fmt.Sprint(r.I))
	})
	if len(res) != 2 || res["[-1 0]"] == 0 || res["[-1 1]"] == 0 {
		t.Fatalf("select: %v", res)
	}
}

func TestSelectBlocksThenFires(t *testing.T) {
	res := runSeeds(t, 200, Policy{Kind: "uniform"}, func(out *[]string) {
		a, b := Make[int](), Make[string]()
		Go(func() { Sleep(time.Millisecond); Send(b, "x") })
		r := Select(false, CaseRecv(a), CaseRecv(b))
		v, ok := SelVal2(b, r)
		*out = append(*out, fmt.Sprint(r.I, v, ok))
	})
	if len(res) != 1 || res["[1xtrue]"] != 200 {
		t.Fatalf("select block: %v", res)
	}
}

func TestNilChannelBlocksForever(t *testing.T) {
	res := runSeeds(t, 20, Policy{Kind: "uniform"}, func(out *[]string) {
		var ch chan int
		Recv(ch)
	})
	if len(res) != 1 || res["verdict:deadlock"] != 20 {
		t.Fatalf("nil chan: %v", res)
	}
}

func TestCloseWakesReceivers(t *testing.T) {
	res := runSeeds(t, 200, Policy{Kind: "uniform"}, func(out *[]string) {
		ch := Make[int]()
		fin := Make[int](2)
		for i := 0; i < 2; i++ {
			Go(func() { _, ok := Recv2(ch); Send(fin, map[bool]int{true: 1, false: 0}[ok]) })
		}
		Sleep(time.Millisecond)
		Close(ch)
		*out = append(*out, fmt.Sprint(Recv(fin)+Recv(fin)))
	})
	if len(res) != 1 || res["[0]"] != 200 {
		t.Fatalf("close: %v", res)
	}
}

func TestMutexExclusionAndBarging(t *testing.T) {
	res := runSeeds(t, 400, Policy{Kind: "uniform"}, func(out *[]string) {
		var mu Mutex
		in := 0
		fin := Make[int](3)
		for i := 0; i < 3; i++ {
			i := i
			Go(func() {
				mu.Lock()
				in++
				if in > 1 {
					*out = append(*out, "OVERLAP")
				}
				Yield()
				*out = append(*out, fmt.Sprint(i))
				in--
				mu.Unlock()
				Send(fin, i)
			})
		}
		for i := 0; i < 3; i++ {
			Recv(fin)
		}
	})
	for k := range res {
		if len(k) != len("[0 1 2]") {
			t.Fatalf("mutex exclusion broken: %s", k)
		}
	}
	if len(res) != 6 {
		t.Fatalf("expected all 6 lock orders, got %v", keys(res))
	}
}

func TestSleepNeverEarlyAndClockJumps(t *testing.T) {
	res := runSeeds(t, 100, Policy{Kind: "uniform", ClockP: 0.3}, func(out *[]string) {
		t0 := Now()
		Go(func() { Sleep(time.Hour); *out = append(*out, "h") })
		Sleep(time.Minute)
		if Since(t0) < time.Minute {
			*out = append(*out, "EARLY")
		}
		*out = append(*out, "m")
	})
	// with voluntary clock advances the hour may pass before main appends: both orders are legal
	if res["[m h]"]+res["[h m]"] != 100 || res["[m h]"] == 0 || res["[h m]"] == 0 {
		t.Fatalf("clock: %v", res)
	}
}

func TestTimerAndTicker(t *testing.T) {
	res := runSeeds(t, 100, Policy{Kind: "uniform"}, func(out *[]string) {
		tk := NewTicker(time.Second)
		n := 0
		to := After(3500 * time.Millisecond)
	L:
		for {
			switch r := Select(false, CaseRecv(tk.C), CaseRecv(to)); r.I {
			case 0:
				n++
			case 1:
				break L
			}
		}
		tk.Stop()
		*out = append(*out, fmt.Sprint(n))
	})
	if len(res) != 1 || res["[3]"] != 100 {
		t.Fatalf("ticker: %v", res)
	}
}

func TestWaitGroupAndHB(t *testing.T) {
	res := runSeeds(t, 200, Policy{Kind: "uniform"}, func(out *[]string) {
		var wg WaitGroup
		var clocks [3]VC
		for i := 0; i < 3; i++ {
			i := i
			wg.Add(1)
			Go(func() { clocks[i] = Clock(); wg.Done() })
		}
		wg.Wait()
		after := Clock()
		for i := range clocks {
			if !Leq(clocks[i], after) {
				*out = append(*out, "NOHB")
			}
		}
		if Leq(clocks[0], clocks[1]) && Leq(clocks[1], clocks[0]) {
			*out = append(*out, "SPURIOUS-HB")
		}
	})
	if len(res) != 1 || res["[]"] != 200 {
		t.Fatalf("waitgroup/hb: %v", res)
	}
}

func TestHBAbsentWithoutSync(t *testing.T) {
	// a flag polled without synchronization: event order is fine, vector clocks say "no HB"
	res := runSeeds(t, 100, Policy{Kind: "uniform"}, func(out *[]string) {
		flag := false
		var wvc VC
		Go(func() { wvc = Clock(); flag = true })
		for !flag {
			Sleep(time.Millisecond)
		}
		if Leq(wvc, Clock()) {
			*out = append(*out, "HB")
		}
	})
	if len(res) != 1 || res["[]"] != 100 {
		t.Fatalf("hb: %v", res)
	}
}

func TestLivelockAndDeterminism(t *testing.T) {
	for seed := 0; seed < 5; seed++ {
		s := Run(Config{Chooser: NewRandomChooser(uint64(seed), Policy{Kind: "uniform"}, false), LoneLimit: 500}, func() {
			ch := Make[int]()
			Go(func() { Recv(ch) }) // parked forever
			for {
				Sleep(time.Millisecond)
			}
		})
		if s.Verdict() != VLivelock {
			t.Fatalf("verdict %s", s.Verdict())
		}
	}
	h := map[uint64]bool{}
	for rep := 0; rep < 3; rep++ {
		s := Run(Config{Chooser: NewRandomChooser(42, Policy{Kind: "pct", PCTDepth: 2, PCTSpan: 50}, false)}, func() {
			ch := Make[int](1)
			var mu Mutex
			for i := 0; i < 4; i++ {
				i := i
				Go(func() { mu.Lock(); Send(ch, i); Recv(ch); mu.Unlock() })
			}
			Sleep(time.Second)
			for k := range MapKeys(map[string]int{"a": 1, "b": 2, "c": 3}) {
				_ = k
			}
		})
		h[s.Hash()] = true
	}
	if len(h) != 1 {
		t.Fatalf("same seed gave %d different hashes", len(h))
	}
}

func TestSettledCallback(t *testing.T) {
	n := 0
	s := Run(Config{Chooser: NewRandomChooser(1, Policy{Kind: "uniform"}, false), OnSettled: func(string) { n++ }}, func() {
		fin := Make[int]()
		Go(func() { EnvSleep(10 * time.Millisecond); Send(fin, 1) })
		for {
			if r := Select(true, CaseRecv(fin)); r.I == 0 {
				break
			}
			Sleep(time.Millisecond)
		}
	})
	if s.Verdict() != VOK || n < 5 || n > 10 {
		t.Fatalf("verdict %s settled=%d", s.Verdict(), n)
	}
}

func TestMapKeysPermutations(t *testing.T) {
	m := map[string]int{"a": 1, "b": 2, "c": 3}
	seen := map[string]bool{}
	for seed := 0; seed < 200; seed++ {
		Run(Config{Chooser: NewRandomChooser(uint64(seed), Policy{Kind: "uniform", MapMode: "shuffle"}, false)}, func() {
			seen[fmt.Sprint(MapKeys(m))] = true
		})
	}
	if len(seen) != 6 {
		t.Fatalf("permutations reached: %v", seen)
	}
	for _, base := range []string{"asc", "desc", "rot"} {
		var got string
		Run(Config{MapBase: base, Chooser: NewRandomChooser(1, Policy{Kind: "uniform", MapMode: base}, false)}, func() {
			got = fmt.Sprint(MapKeys(m))
		})
		want := map[string]string{"asc": "[a b c]", "desc": "[c b a]", "rot": "[b c a]"}[base]
		if got != want {
			t.Fatalf("%s: %s", base, got)
		}
	}
}

func TestAtomicsAreSchedulingPointsAndSynchronize(t *testing.T) {
	res := runSeeds(t, 300, Policy{Kind: "uniform"}, func(out *[]string) {
		var flag AtomicBool
		var n int32
		var wvc VC
		Go(func() { wvc = Clock(); AddInt32(&n, 1); flag.Store(true) })
		for !flag.Load() {
			Sleep(time.Millisecond)
		}
		if !Leq(wvc, Clock()) {
			*out = append(*out, "NOHB")
		}
		*out = append(*out, fmt.Sprint(LoadInt32(&n)))
	})
	if len(res) != 1 || res["[1]"] != 300 {
		t.Fatalf("atomics: %v", res)
	}
	// lost update through non-atomic read-modify-write must be reachable (atomics yield)
	lost := runSeeds(t, 300, Policy{Kind: "uniform"}, func(out *[]string) {
		var n AtomicInt32
		var wg WaitGroup
		for i := 0; i < 2; i++ {
			wg.Add(1)
			Go(func() { v := n.Load(); n.Store(v + 1); wg.Done() })
		}
		wg.Wait()
		*out = append(*out, fmt.Sprint(n.Load()))
	})
	if lost["[1]"] == 0 || lost["[2]"] == 0 {
		t.Fatalf("atomic interleavings not explored: %v", lost)
	}
}

func TestWithTimeoutOnSimClock(t *testing.T) {
	res := runSeeds(t, 100, Policy{Kind: "uniform"}, func(out *[]string) {
		ctx, cancel := WithTimeout(context.Background(), time.Minute)
		defer cancel()
		t0 := Now()
		Select(false, CaseRecv(ctx.Done()))
		*out = append(*out, fmt.Sprint(Since(t0), ctx.Err()))
		ctx2, cancel2 := WithTimeout(context.Background(), time.Hour)
		cancel2()
		*out = append(*out, fmt.Sprint(ctx2.Err()))
	})
	if len(res) != 1 || res["[1m0s context deadline exceeded context canceled]"] != 100 {
		t.Fatalf("timeout ctx: %v", res)
	}
}

func TestSyncMapModel(t *testing.T) {
	seen := map[string]bool{}
	for seed := 0; seed < 100; seed++ {
		Run(Config{Chooser: NewRandomChooser(uint64(seed), Policy{Kind: "uniform", MapMode: "shuffle"}, false)}, func() {
			var m Map
			m.Store("a", 1)
			m.Store("b", 2)
			m.Store("c", 3)
			m.Delete("b")
			s := ""
			m.Range(func(k, v interface{}) bool { s += k.(string); return true })
			seen[s] = true
		})
	}
	if !seen["ac"] || !seen["ca"] || len(seen) != 2 {
		t.Fatalf("sync.Map range orders: %v", seen)
	}
}

//go:build !passthrough

package simrt

import (
	"go/ast"
	"go/importer"
	"go/parser"
	"go/token"
	"go/types"
	"strings"
	"testing"
)

// The runtime itself must not contain a nondeterminism source (DESIGN §3.2, §8.1): the only range
// over a map is the key collection in MapKeys (erased by the sort that follows), and there is no
// wall-clock read, sync.Map or math/rand in non-test code.
func TestNoHiddenNondeterminismInSimrt(t *testing.T) {
	fset := token.NewFileSet()
	names := []string{"chan.go", "chooser.go", "mapkeys.go", "sched.go", "sync.go", "timer.go", "vc.go", "atomic.go", "ctxmap.go", "lock.go"}
	var files []*ast.File
	for _, n := range names {
		f, err := parser.ParseFile(fset, n, nil, 0)
		if err != nil {
			t.Fatal(err)
		}
		files = append(files, f)
	}
	info := &types.Info{Types: map[ast.Expr]types.TypeAndValue{}, Uses: map[*ast.Ident]types.Object{}}
	conf := types.Config{Importer: importer.ForCompiler(fset, "source", nil)}
	if _, err := conf.Check("simrt", fset, files, info); err != nil {
		t.Fatal(err)
	}
	for _, f := range files {
		for _, imp := range f.Imports {
			switch strings.Trim(imp.Path.Value, `"`) {
			case "math/rand", "math/rand/v2", "crypto/rand":
				t.Errorf("%s imports %s", fset.Position(imp.Pos()), imp.Path.Value)
			}
		}
		for _, d := range f.Decls {
			fd, ok := d.(*ast.FuncDecl)
			if !ok {
				continue
			}
			ast.Inspect(fd, func(n ast.Node) bool {
				switch x := n.(type) {
				case *ast.RangeStmt:
					if _, isMap := info.TypeOf(x.X).Underlying().(*types.Map); isMap && fd.Name.Name != "MapKeys" && fd.Name.Name != "MapKeysAny" { // both erase the native order by sorting
						t.Errorf("%s: range over a map in %s", fset.Position(x.Pos()), fd.Name.Name)
					}
				case *ast.SelectorExpr:
					if id, ok := x.X.(*ast.Ident); ok {
						if pn, ok := info.Uses[id].(*types.PkgName); ok && pn.Imported().Path() == "time" {
							switch x.Sel.Name {
							case "Now", "Since", "Sleep", "After", "Tick", "Until":
								t.Errorf("%s: time.%s in simrt", fset.Position(x.Pos()), x.Sel.Name)
							}
						}
						if pn, ok := info.Uses[id].(*types.PkgName); ok && pn.Imported().Path() == "sync" && x.Sel.Name == "Map" {
							t.Errorf("%s: sync.Map in simrt", fset.Position(x.Pos()))
						}
					}
				}
				return true
			})
		}
	}
}

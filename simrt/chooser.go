package simrt

// Chooser decides every nondeterministic choice of a run. Options are presented in a stable order
// (creation order of goroutines, case index, key index); the chosen option's NAME is what gets
// logged, so a log can be replayed even against a slightly different scenario.
type Chooser interface {
	Pick(kind, who string, options []string) int
}

// RNG: splitmix64. Self-contained so that results never depend on the Go version.
type RNG struct{ s uint64 }

func NewRNG(seed uint64) *RNG { return &RNG{seed*0x9E3779B97F4A7C15 + 0x1234567} }

func (r *RNG) Uint64() uint64 {
	r.s += 0x9E3779B97F4A7C15
	z := r.s
	z = (z ^ (z >> 30)) * 0xBF58476D1CE4E5B9
	z = (z ^ (z >> 27)) * 0x94D049BB133111EB
	return z ^ (z >> 31)
}
func (r *RNG) Intn(n int) int      { return int(r.Uint64() % uint64(n)) }
func (r *RNG) Float() float64      { return float64(r.Uint64()>>11) / (1 << 53) }
func (r *RNG) Bool(p float64) bool { return r.Float() < p }

// Mix derives an independent seed from a base seed and a few integers (splitmix finalizer).
func Mix(base uint64, xs ...uint64) uint64 {
	z := base
	for _, x := range xs {
		z ^= x + 0x9E3779B97F4A7C15 + (z << 6) + (z >> 2)
		z = (z ^ (z >> 30)) * 0xBF58476D1CE4E5B9
		z = (z ^ (z >> 27)) * 0x94D049BB133111EB
		z ^= z >> 31
	}
	return z
}

// Policy shapes the distribution from which scheduling decisions are drawn. The decision log does
// not depend on the policy that produced it.
type Policy struct {
	Kind     string  `json:"kind"`     // uniform | sticky | pct | rr
	Sticky   float64 `json:"sticky"`   // sticky: probability of continuing the current goroutine
	ClockP   float64 `json:"clock_p"`  // probability of advancing the clock while goroutines are runnable
	PCTDepth int     `json:"pct_d"`    // pct: number of priority change points
	PCTSpan  int     `json:"pct_span"` // pct: change points are drawn from [0, span) decisions
	MapMode  string  `json:"map_mode"` // shuffle (chooser permutes) | asc | desc | rot (base order of Config.MapBase kept)
}

type RandomChooser struct {
	R      *RNG
	P      Policy
	Log    []string
	Record bool

	nsched int
	prio   map[string]int
	change []int
	rrLast string
}

func NewRandomChooser(seed uint64, p Policy, record bool) *RandomChooser {
	c := &RandomChooser{R: NewRNG(seed), P: p, Record: record}
	if p.Kind == "pct" {
		c.prio = map[string]int{}
		span := p.PCTSpan
		if span <= 0 {
			span = 200
		}
		for i := 0; i < p.PCTDepth; i++ {
			c.change = append(c.change, c.R.Intn(span))
		}
	}
	return c
}

func (c *RandomChooser) Pick(kind, who string, options []string) int {
	var i int
	switch kind {
	case "sched":
		i = c.pickSched(who, options)
	case "map":
		i = c.pickMap(options)
	default:
		i = c.R.Intn(len(options))
	}
	if c.Record {
		c.Log = append(c.Log, options[i])
	}
	return i
}

func (c *RandomChooser) pickSched(who string, options []string) int {
	n := len(options)
	if options[n-1] == "~clock" {
		n--
		if n == 0 || c.R.Float() < c.P.ClockP {
			return len(options) - 1
		}
	}
	c.nsched++
	switch c.P.Kind {
	case "sticky":
		for j := 0; j < n; j++ {
			if options[j] == who {
				if c.R.Float() < c.P.Sticky {
					return j
				}
				break
			}
		}
	case "rr":
		// first option after the one chosen last time, in name order of presentation
		for j := 0; j < n; j++ {
			if options[j] > c.rrLast {
				c.rrLast = options[j]
				return j
			}
		}
		c.rrLast = options[0]
		return 0
	case "pct":
		for _, cp := range c.change {
			if cp == c.nsched {
				// demote the goroutine that is currently running below everything seen so far
				c.prio[who] = -c.nsched
			}
		}
		best, bestP := 0, 0
		for j := 0; j < n; j++ {
			p, ok := c.prio[options[j]]
			if !ok {
				p = 1 + c.R.Intn(1<<20)
				c.prio[options[j]] = p
			}
			if j == 0 || p > bestP {
				best, bestP = j, p
			}
		}
		return best
	}
	return c.R.Intn(n)
}

// pickMap serves the Fisher-Yates picks of MapKeys: options are "00".."k" while position k is
// being filled; picking k keeps the element of the base order (Config.MapBase) in place.
func (c *RandomChooser) pickMap(options []string) int {
	n := len(options)
	if c.P.MapMode == "" || c.P.MapMode == "shuffle" {
		return c.R.Intn(n)
	}
	return n - 1
}

// ReplayChooser replays a recorded decision list by name. An entry that is empty or names an
// option that is not available falls back to the default decision: continue the current goroutine
// if it is enabled, else the first option (for map picks: keep sorted order).
type ReplayChooser struct {
	Log    []string
	pos    int
	Miss   int
	Record []string
}

func (c *ReplayChooser) Pick(kind, who string, options []string) int {
	i := -1
	if c.pos < len(c.Log) {
		want := c.Log[c.pos]
		if want != "" {
			for j, o := range options {
				if o == want {
					i = j
					break
				}
			}
			if i < 0 {
				c.Miss++
			}
		}
	}
	c.pos++
	if i < 0 {
		i = DefaultPick(kind, who, options)
	}
	c.Record = append(c.Record, options[i])
	return i
}

// DefaultPick is the decision that costs nothing in a minimised schedule.
func DefaultPick(kind, who string, options []string) int {
	switch kind {
	case "sched":
		for j, o := range options {
			if o == who {
				return j
			}
		}
		return 0
	case "map":
		return len(options) - 1
	}
	return 0
}

//go:build !passthrough

package simrt

import "unsafe"

// sync/atomic under the simulation. Every atomic operation is a scheduling point and, following
// the Go memory model (atomics behave as sequentially consistent synchronizing operations), both
// an acquire and a release on a per-address clock: whatever happened before an atomic operation
// on a location is visible after any later atomic operation on the same location.

func (s *Sim) atomicSync(addr unsafe.Pointer, kind string) {
	if s.atomVC == nil {
		s.atomVC = map[uintptr]*VC{}
	}
	k := uintptr(addr)
	vc := s.atomVC[k]
	if vc == nil {
		vc = &VC{}
		s.atomVC[k] = vc
	}
	g := s.cur
	g.vc.join(*vc)
	vc.join(g.vc)
	g.vc.tick(g.ID)
	s.event(kind, "")
}

// atomRead/atomWrite synchronize; the caller accesses the location and only then yields, so that
// the access and the clock update are one indivisible step.
func atomRead(p unsafe.Pointer)  { S.atomicSync(p, "atomic-load") }
func atomWrite(p unsafe.Pointer) { S.atomicSync(p, "atomic-rmw") }

type integer interface {
	~int32 | ~int64 | ~uint32 | ~uint64 | ~uintptr
}

func atomLoad[T any](p *T) T      { atomRead(unsafe.Pointer(p)); v := *p; S.yield(); return v }
func atomStore[T any](p *T, v T)  { atomWrite(unsafe.Pointer(p)); *p = v; S.yield() }
func atomSwap[T any](p *T, v T) T { atomWrite(unsafe.Pointer(p)); o := *p; *p = v; S.yield(); return o }
func atomAdd[T integer](p *T, d T) T {
	atomWrite(unsafe.Pointer(p))
	*p += d
	n := *p
	S.yield()
	return n
}
func atomCAS[T comparable](p *T, old, new T) bool {
	atomWrite(unsafe.Pointer(p))
	ok := *p == old
	if ok {
		*p = new
	}
	S.yield()
	return ok
}

func LoadInt32(p *int32) int32       { return atomLoad(p) }
func LoadInt64(p *int64) int64       { return atomLoad(p) }
func LoadUint32(p *uint32) uint32    { return atomLoad(p) }
func LoadUint64(p *uint64) uint64    { return atomLoad(p) }
func LoadUintptr(p *uintptr) uintptr { return atomLoad(p) }
func LoadPointer(p *unsafe.Pointer) unsafe.Pointer {
	return atomLoad(p)
}
func StoreInt32(p *int32, v int32)                     { atomStore(p, v) }
func StoreInt64(p *int64, v int64)                     { atomStore(p, v) }
func StoreUint32(p *uint32, v uint32)                  { atomStore(p, v) }
func StoreUint64(p *uint64, v uint64)                  { atomStore(p, v) }
func StoreUintptr(p *uintptr, v uintptr)               { atomStore(p, v) }
func StorePointer(p *unsafe.Pointer, v unsafe.Pointer) { atomStore(p, v) }
func AddInt32(p *int32, d int32) int32                 { return atomAdd(p, d) }
func AddInt64(p *int64, d int64) int64                 { return atomAdd(p, d) }
func AddUint32(p *uint32, d uint32) uint32             { return atomAdd(p, d) }
func AddUint64(p *uint64, d uint64) uint64             { return atomAdd(p, d) }
func AddUintptr(p *uintptr, d uintptr) uintptr         { return atomAdd(p, d) }
func SwapInt32(p *int32, v int32) int32                { return atomSwap(p, v) }
func SwapInt64(p *int64, v int64) int64                { return atomSwap(p, v) }
func SwapUint32(p *uint32, v uint32) uint32            { return atomSwap(p, v) }
func SwapUint64(p *uint64, v uint64) uint64            { return atomSwap(p, v) }
func SwapUintptr(p *uintptr, v uintptr) uintptr        { return atomSwap(p, v) }
func SwapPointer(p *unsafe.Pointer, v unsafe.Pointer) unsafe.Pointer {
	return atomSwap(p, v)
}
func CompareAndSwapInt32(p *int32, o, n int32) bool       { return atomCAS(p, o, n) }
func CompareAndSwapInt64(p *int64, o, n int64) bool       { return atomCAS(p, o, n) }
func CompareAndSwapUint32(p *uint32, o, n uint32) bool    { return atomCAS(p, o, n) }
func CompareAndSwapUint64(p *uint64, o, n uint64) bool    { return atomCAS(p, o, n) }
func CompareAndSwapUintptr(p *uintptr, o, n uintptr) bool { return atomCAS(p, o, n) }
func CompareAndSwapPointer(p *unsafe.Pointer, o, n unsafe.Pointer) bool {
	return atomCAS(p, o, n)
}

type atomicNum[T integer] struct{ v T }

func (a *atomicNum[T]) Load() T                    { return atomLoad(&a.v) }
func (a *atomicNum[T]) Store(v T)                  { atomStore(&a.v, v) }
func (a *atomicNum[T]) Swap(v T) T                 { return atomSwap(&a.v, v) }
func (a *atomicNum[T]) Add(d T) T                  { return atomAdd(&a.v, d) }
func (a *atomicNum[T]) CompareAndSwap(o, n T) bool { return atomCAS(&a.v, o, n) }

type AtomicInt32 struct{ atomicNum[int32] }
type AtomicInt64 struct{ atomicNum[int64] }
type AtomicUint32 struct{ atomicNum[uint32] }
type AtomicUint64 struct{ atomicNum[uint64] }
type AtomicUintptr struct{ atomicNum[uintptr] }

type AtomicBool struct{ v bool }

func (a *AtomicBool) Load() bool                    { return atomLoad(&a.v) }
func (a *AtomicBool) Store(v bool)                  { atomStore(&a.v, v) }
func (a *AtomicBool) Swap(v bool) bool              { return atomSwap(&a.v, v) }
func (a *AtomicBool) CompareAndSwap(o, n bool) bool { return atomCAS(&a.v, o, n) }

type AtomicPointer[T any] struct{ v *T }

func (a *AtomicPointer[T]) Load() *T                    { return atomLoad(&a.v) }
func (a *AtomicPointer[T]) Store(v *T)                  { atomStore(&a.v, v) }
func (a *AtomicPointer[T]) Swap(v *T) *T                { return atomSwap(&a.v, v) }
func (a *AtomicPointer[T]) CompareAndSwap(o, n *T) bool { return atomCAS(&a.v, o, n) }

type AtomicValue struct{ v interface{} }

func (a *AtomicValue) Load() interface{}   { atomRead(unsafe.Pointer(a)); v := a.v; S.yield(); return v }
func (a *AtomicValue) Store(v interface{}) { atomWrite(unsafe.Pointer(a)); a.v = v; S.yield() }
func (a *AtomicValue) Swap(v interface{}) interface{} {
	atomWrite(unsafe.Pointer(a))
	o := a.v
	a.v = v
	S.yield()
	return o
}
func (a *AtomicValue) CompareAndSwap(o, n interface{}) bool {
	atomWrite(unsafe.Pointer(a))
	ok := a.v == o
	if ok {
		a.v = n
	}
	S.yield()
	return ok
}

// Pool models sync.Pool deterministically: a LIFO of the items put back (a legal behaviour of the
// real pool, which may return any previously Put item or call New).
type Pool struct {
	New   func() interface{}
	items []interface{}
	owner *Sim
}

// A pool (typically a package-level variable of the code under test) starts every simulated run
// empty, so that a run does not depend on the runs executed before it in the same process.
func (p *Pool) reset() {
	if p.owner != S {
		p.owner, p.items = S, nil
	}
}

func (p *Pool) Get() interface{} {
	p.reset()
	if n := len(p.items); n > 0 {
		x := p.items[n-1]
		p.items = p.items[:n-1]
		return x
	}
	if p.New != nil {
		return p.New()
	}
	return nil
}

func (p *Pool) Put(x interface{}) {
	if x == nil {
		return
	}
	p.reset()
	p.items = append(p.items, x)
}

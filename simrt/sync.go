//go:build !passthrough

package simrt

import "strconv"

// Mutex models sync.Mutex: Lock succeeds if free, else parks; after an Unlock any waiter or a
// later arriver may win (normal mode barging and starvation-mode hand-off both exist in the real
// implementation), so the Chooser effectively decides.
type Mutex struct {
	locked bool
	id     int
	vc     VC
	nwait  int
	owner  *Sim
}

// fresh: a mutex that outlives a simulated run (a package-level variable of the code under test)
// starts the next run unlocked, as it would in a new process; a run abandoned with goroutines still
// holding it must not leak into the runs executed after it.
func (m *Mutex) fresh() {
	if m.owner != S {
		if m.owner != nil && S.cfg.KeepGlobals {
			m.owner, m.id = S, 0 // the same process goes on: the state stays, only the trace name is renewed
			return
		}
		*m = Mutex{owner: S}
	}
}

func (m *Mutex) name() string {
	if m.id == 0 {
		S.nmutex++
		m.id = S.nmutex
	}
	return "mu" + strconv.Itoa(m.id)
}

func (m *Mutex) Lock() {
	m.fresh()
	s := S
	if m.locked {
		m.nwait++
		s.Stats.MutexContended++
		s.event("lock-block", m.name())
		s.block("lock "+m.name(), func() bool { return !m.locked })
		m.nwait--
	}
	m.locked = true
	s.cur.vc.join(m.vc)
	s.event("lock", m.name())
	s.yield()
}

func (m *Mutex) TryLock() bool {
	m.fresh()
	s := S
	if m.locked {
		s.event("trylock-fail", m.name())
		s.yield()
		return false
	}
	m.locked = true
	s.cur.vc.join(m.vc)
	s.event("trylock", m.name())
	s.yield()
	return true
}

func (m *Mutex) Unlock() {
	m.fresh()
	s := S
	if !m.locked {
		panic("sync: unlock of unlocked mutex")
	}
	m.locked = false
	m.vc = s.cur.vc.clone()
	s.cur.vc.tick(s.cur.ID)
	s.event("unlock", m.name())
	s.yield()
}

// Waiters reports how many goroutines are parked on the mutex (probe).
func (m *Mutex) Waiters() int { return m.nwait }

// RWMutex models sync.RWMutex (writers are not preferred: any admissible waiter may win).
type RWMutex struct {
	w       bool
	readers int
	id      int
	wvc     VC // released by writers
	rvc     VC // released by readers (joined by the next writer)
	owner   *Sim
}

func (m *RWMutex) fresh() {
	if m.owner != S {
		if m.owner != nil && S.cfg.KeepGlobals {
			m.owner, m.id = S, 0
			return
		}
		*m = RWMutex{owner: S}
	}
}

func (m *RWMutex) name() string {
	if m.id == 0 {
		S.nmutex++
		m.id = S.nmutex
	}
	return "rw" + strconv.Itoa(m.id)
}

func (m *RWMutex) Lock() {
	m.fresh()
	s := S
	if m.w || m.readers > 0 {
		s.Stats.MutexContended++
		s.event("lock-block", m.name())
		s.block("lock "+m.name(), func() bool { return !m.w && m.readers == 0 })
	}
	m.w = true
	s.cur.vc.join(m.wvc)
	s.cur.vc.join(m.rvc)
	s.event("lock", m.name())
	s.yield()
}

func (m *RWMutex) Unlock() {
	m.fresh()
	s := S
	if !m.w {
		panic("sync: Unlock of unlocked RWMutex")
	}
	m.w = false
	m.wvc = s.cur.vc.clone()
	s.cur.vc.tick(s.cur.ID)
	s.event("unlock", m.name())
	s.yield()
}

func (m *RWMutex) RLock() {
	m.fresh()
	s := S
	if m.w {
		s.Stats.MutexContended++
		s.event("rlock-block", m.name())
		s.block("rlock "+m.name(), func() bool { return !m.w })
	}
	m.readers++
	s.cur.vc.join(m.wvc)
	s.event("rlock", m.name())
	s.yield()
}

func (m *RWMutex) RUnlock() {
	m.fresh()
	s := S
	if m.readers <= 0 {
		panic("sync: RUnlock of unlocked RWMutex")
	}
	m.readers--
	m.rvc.join(s.cur.vc)
	s.cur.vc.tick(s.cur.ID)
	s.event("runlock", m.name())
	s.yield()
}

func (m *RWMutex) TryLock() bool {
	m.fresh()
	if m.w || m.readers > 0 {
		return false
	}
	m.w = true
	S.cur.vc.join(m.wvc)
	S.cur.vc.join(m.rvc)
	return true
}

func (m *RWMutex) TryRLock() bool {
	m.fresh()
	if m.w {
		return false
	}
	m.readers++
	S.cur.vc.join(m.wvc)
	return true
}

// WaitGroup models sync.WaitGroup.
type WaitGroup struct {
	n  int
	id int
	vc VC
}

func (w *WaitGroup) name() string {
	if w.id == 0 {
		S.nmutex++
		w.id = S.nmutex
	}
	return "wg" + strconv.Itoa(w.id)
}

func (w *WaitGroup) Add(d int) {
	s := S
	w.n += d
	if w.n < 0 {
		panic("sync: negative WaitGroup counter")
	}
	if d < 0 {
		w.vc.join(s.cur.vc)
		s.cur.vc.tick(s.cur.ID)
	}
	s.event("wg-add", w.name())
	s.yield()
}

func (w *WaitGroup) Done() { w.Add(-1) }

func (w *WaitGroup) Wait() {
	s := S
	if w.n > 0 {
		s.event("wg-wait-block", w.name())
		s.block("wait "+w.name(), func() bool { return w.n == 0 })
	}
	s.cur.vc.join(w.vc)
	s.event("wg-wait", w.name())
	s.yield()
}

// Go is the Go 1.25 convenience method.
func (w *WaitGroup) Go(f func()) {
	w.Add(1)
	Go(func() {
		defer w.Done()
		f()
	})
}

// Once models sync.Once.
type Once struct {
	done    bool
	running bool
	id      int
	vc      VC
}

func (o *Once) Do(f func()) {
	s := S
	if o.done {
		s.cur.vc.join(o.vc)
		return
	}
	if o.running {
		s.event("once-block", "")
		s.block("once", func() bool { return o.done })
		s.cur.vc.join(o.vc)
		return
	}
	o.running = true
	defer func() {
		o.vc = s.cur.vc.clone()
		s.cur.vc.tick(s.cur.ID)
		o.done = true
		o.running = false
	}()
	f()
}

// Cond models sync.Cond on top of a simrt Locker.
type Locker interface {
	Lock()
	Unlock()
}

type Cond struct {
	L       Locker
	waiters []*condWaiter
}

type condWaiter struct {
	g     *G
	woken bool
	vc    VC
}

func NewCond(l Locker) *Cond { return &Cond{L: l} }

func (c *Cond) Wait() {
	s := S
	w := &condWaiter{g: s.cur}
	c.waiters = append(c.waiters, w)
	c.L.Unlock()
	if !w.woken {
		s.event("cond-wait", "")
		s.block("cond", func() bool { return w.woken })
	}
	s.cur.vc.join(w.vc)
	c.L.Lock()
}

func (c *Cond) Signal() {
	s := S
	if len(c.waiters) > 0 {
		w := c.waiters[0]
		c.waiters = c.waiters[1:]
		w.woken = true
		w.vc = s.cur.vc.clone()
		s.cur.vc.tick(s.cur.ID)
	}
	s.event("cond-signal", "")
	s.yield()
}

func (c *Cond) Broadcast() {
	s := S
	for _, w := range c.waiters {
		w.woken = true
		w.vc = s.cur.vc.clone()
	}
	c.waiters = nil
	s.cur.vc.tick(s.cur.ID)
	s.event("cond-broadcast", "")
	s.yield()
}

//go:build !passthrough

package simrt

import (
	"fmt"
	"reflect"
	"strconv"
)

// Channel model. Instrumented code keeps real channel *types*; Make allocates a real channel that
// is used only as an identity and registers a model for it. Semantics follow runtime/chan.go:
// unbuffered rendezvous, FIFO buffer, FIFO wait queues served FIFO.

type waiter struct {
	g      *G
	val    interface{}
	ok     bool
	done   bool
	isSend bool
	sel    *selState
	idx    int
	vc     VC
}

type selState struct {
	fired bool
	w     *waiter
}

type slot struct {
	val interface{}
	vc  VC
}

type chanModel struct {
	id     int
	nm     string
	cap    int
	buf    []slot
	sendq  []*waiter
	recvq  []*waiter
	closed bool
	cvc    VC // closer's clock
	timer  bool
	keep   interface{}
}

func chanKey(ch interface{}) uintptr {
	v := reflect.ValueOf(ch)
	if !v.IsValid() || v.IsNil() {
		return 0
	}
	return v.Pointer()
}

func (s *Sim) model(ch interface{}) *chanModel {
	k := chanKey(ch)
	if k == 0 {
		return nil
	}
	return s.chans[k]
}

// preinit lists the channels made before any simulation existed (package initialisation).
var preinit []preinitChan

type preinitChan struct {
	key  uintptr
	cap  int
	keep interface{}
}

func (s *Sim) registerPreinit() {
	for _, p := range preinit {
		s.nchan++
		s.chans[p.key] = &chanModel{id: s.nchan, nm: "ch" + strconv.Itoa(s.nchan), cap: p.cap, keep: p.keep}
	}
}

// Make is make(chan T, n) under the simulation.
func Make[T any](n ...int) chan T {
	c := 0
	if len(n) > 0 {
		c = n[0]
	}
	if c < 0 {
		panic("makechan: size out of range")
	}
	ch := make(chan T)
	s := S
	if s == nil {
		// a package-level channel of the code under test, created while the program initialises:
		// every simulated run gets a fresh model of it (registerPreinit)
		preinit = append(preinit, preinitChan{chanKey(ch), c, ch})
		return ch
	}
	s.nchan++
	s.chans[chanKey(ch)] = &chanModel{id: s.nchan, nm: "ch" + strconv.Itoa(s.nchan), cap: c, keep: ch}
	if s.cfg.YieldOnMake && !s.inTimerSetup {
		// Creating a channel is not a synchronization operation, but it is a convenient extra
		// preemption point: lazily created locks/channels ("if x.ch == nil { x.ch = make(...) }")
		// are only wrong if somebody else runs between the test and the assignment.
		s.event("make", "")
		s.yield()
	}
	return ch
}

// MakeNamed is make(C, n) for a defined channel type (`type C chan E`).
func MakeNamed[C ~chan E, E any](n ...int) C { return C(Make[E](n...)) }

func popLive(q *[]*waiter) *waiter {
	for len(*q) > 0 {
		w := (*q)[0]
		*q = (*q)[1:]
		if w.sel != nil && w.sel.fired {
			continue
		}
		return w
	}
	return nil
}

func hasLive(q []*waiter) bool {
	for _, w := range q {
		if w.sel == nil || !w.sel.fired {
			return true
		}
	}
	return false
}

func countLive(q []*waiter) int {
	n := 0
	for _, w := range q {
		if w.sel == nil || !w.sel.fired {
			n++
		}
	}
	return n
}

func (m *chanModel) canSend() bool { return m.closed || hasLive(m.recvq) || len(m.buf) < m.cap }
func (m *chanModel) canRecv() bool { return len(m.buf) > 0 || hasLive(m.sendq) || m.closed }

func fire(w *waiter) {
	w.done = true
	if w.sel != nil {
		w.sel.fired = true
		w.sel.w = w
	}
	if w.g.state == gBlocked {
		w.g.state = gRunnable
		w.g.ready = nil
	}
}

// doSend performs a send that is known to be possible now.
func (s *Sim) doSend(m *chanModel, v interface{}) {
	g := s.cur
	if m.closed {
		panic("send on closed channel")
	}
	if w := popLive(&m.recvq); w != nil {
		w.val, w.ok = v, true
		w.g.vc.join(g.vc) // send happens-before the receive completes
		if m.cap == 0 {
			g.vc.join(w.vc) // unbuffered: receive happens-before the send completes
		}
		fire(w)
		g.vc.tick(g.ID)
		return
	}
	m.buf = append(m.buf, slot{v, g.vc.clone()})
	g.vc.tick(g.ID)
}

func (s *Sim) doRecv(m *chanModel) (interface{}, bool) {
	g := s.cur
	if len(m.buf) > 0 {
		sl := m.buf[0]
		m.buf = m.buf[1:]
		g.vc.join(sl.vc)
		if w := popLive(&m.sendq); w != nil {
			m.buf = append(m.buf, slot{w.val, w.vc})
			w.g.vc.join(g.vc) // k-th receive happens-before the (k+C)-th send completes
			fire(w)
		}
		g.vc.tick(g.ID)
		return sl.val, true
	}
	if w := popLive(&m.sendq); w != nil {
		g.vc.join(w.vc)
		w.g.vc.join(g.vc)
		fire(w)
		g.vc.tick(g.ID)
		return w.val, true
	}
	if m.closed {
		g.vc.join(m.cvc)
		return nil, false
	}
	panic("simrt: doRecv on non-ready channel")
}

// Send is `ch <- v`.
func Send[T any](ch chan<- T, v T) {
	s := S
	m := s.model(ch)
	if m == nil {
		if chanKey(ch) == 0 {
			s.event("send-nil", "")
			s.block("send on nil chan", func() bool { return false })
			return
		}
		panic(Unsupported("send on a channel that was not created by instrumented code"))
	}
	if m.canSend() {
		s.event("send", m.nm)
		s.doSend(m, v)
		s.yield()
		return
	}
	w := &waiter{g: s.cur, val: v, isSend: true, vc: s.cur.vc.clone()}
	m.sendq = append(m.sendq, w)
	s.Stats.ChanSendBlocked++
	s.event("send-block", m.nm)
	s.block("send "+m.nm, func() bool { return w.done || m.closed })
	if !w.done && m.closed {
		panic("send on closed channel")
	}
	s.event("send-done", m.nm)
	s.yield()
}

func recvAny(s *Sim, ch interface{}) (interface{}, bool) {
	m := s.model(ch)
	if m == nil {
		if chanKey(ch) == 0 {
			s.event("recv-nil", "")
			s.block("recv on nil chan", func() bool { return false })
			return nil, false
		}
		return foreignRecvBlocking(s, reflect.ValueOf(ch))
	}
	kind := "recv"
	if m.timer {
		kind = "timer-recv"
	}
	if m.canRecv() {
		s.event(kind, m.nm)
		v, ok := s.doRecv(m)
		s.yield()
		return v, ok
	}
	w := &waiter{g: s.cur, vc: s.cur.vc.clone()}
	m.recvq = append(m.recvq, w)
	s.event(kind+"-block", m.nm)
	s.block("recv "+m.nm, func() bool { return w.done || m.closed })
	if !w.done {
		s.cur.vc.join(m.cvc)
		s.event("recv-closed", m.nm)
		s.yield()
		return nil, false
	}
	s.event(kind+"-done", m.nm)
	s.yield()
	return w.val, w.ok
}

// Unsupported is the panic value used when instrumented code does something the model does not
// cover; harnesses turn it into exit code 2 (inconclusive), never into a violation.
type Unsupported string

func (u Unsupported) Error() string { return "simrt: unsupported: " + string(u) }

// tryForeign does a real non-blocking receive on a channel the simulation does not own.
// Only close-signalled channels (ctx.Done()) are supported: a probe must not consume a value.
func tryForeign(rv reflect.Value) (closed bool) {
	chosen, _, ok := reflect.Select([]reflect.SelectCase{
		{Dir: reflect.SelectRecv, Chan: rv},
		{Dir: reflect.SelectDefault},
	})
	if chosen == 1 {
		return false
	}
	if ok {
		panic(Unsupported("a foreign channel delivered a value; only close-signalled foreign channels are supported"))
	}
	return true
}

// foreignFired records a receive on a foreign channel (ctx.Done()) that fired. polled tells
// whether it happened in a non-blocking poll (a select with a default branch): that is an
// unambiguous "the code looked at the context and saw it cancelled"; a fire that ends a blocking
// wait may be a mere wake-up.
func (s *Sim) foreignFired(obj string, polled bool) {
	s.Stats.ForeignFired++
	q := s.event("foreign-fired", obj)
	if s.FirstForeign == 0 {
		s.FirstForeign = q
	}
	if s.cfg.OnForeignFire != nil {
		s.cfg.OnForeignFire(q, polled)
	}
}

func foreignRecvBlocking(s *Sim, rv reflect.Value) (interface{}, bool) {
	if !tryForeign(rv) {
		s.event("frecv-block", "foreign")
		s.block("recv foreign", func() bool { return tryForeign(rv) })
	}
	s.foreignFired("recv", false)
	s.yield()
	return nil, false
}

// Recv is `<-ch`.
func Recv[T any](ch <-chan T) T {
	v, _ := recvAny(S, ch)
	if v == nil {
		var z T
		return z
	}
	return v.(T)
}

// Recv2 is `v, ok := <-ch`.
func Recv2[T any](ch <-chan T) (T, bool) {
	v, ok := recvAny(S, ch)
	if v == nil {
		var z T
		return z, ok
	}
	return v.(T), ok
}

// RecvOK is the iteration step of `for v := range ch`.
func RecvOK[T any](ch <-chan T) (T, bool) { return Recv2(ch) }

// Close is close(ch).
func Close[T any](ch chan<- T) {
	s := S
	m := s.model(ch)
	if m == nil {
		close(ch)
		return
	}
	if m.closed {
		panic("close of closed channel")
	}
	m.closed = true
	m.cvc = s.cur.vc.clone()
	s.cur.vc.tick(s.cur.ID)
	s.event("close", m.nm)
	s.yield()
}

func Len[T any](ch chan T) int {
	if m := S.model(ch); m != nil {
		return len(m.buf)
	}
	return len(ch)
}

func Cap[T any](ch chan T) int {
	if m := S.model(ch); m != nil {
		return m.cap
	}
	return cap(ch)
}

// QueueLens reports (buffered, blocked senders, blocked receivers) of a modelled channel (probes).
func QueueLens(ch interface{}) (int, int, int) {
	if m := S.model(ch); m != nil {
		return len(m.buf), countLive(m.sendq), countLive(m.recvq)
	}
	return 0, 0, 0
}

// ---- select ----

type SelCase struct {
	ch   interface{}
	send bool
	val  interface{}
}

func CaseRecv[T any](ch <-chan T) SelCase      { return SelCase{ch: ch} }
func CaseSend[T any](ch chan<- T, v T) SelCase { return SelCase{ch: ch, send: true, val: v} }

type SelResult struct {
	I   int // chosen case index in source order (default excluded), -1 = default
	val interface{}
	ok  bool
}

func SelVal[T any](ch <-chan T, r SelResult) T {
	if r.val == nil {
		var z T
		return z
	}
	return r.val.(T)
}

func SelVal2[T any](ch <-chan T, r SelResult) (T, bool) { return SelVal(ch, r), r.ok }

var caseNames = func() []string {
	r := make([]string, 64)
	for i := range r {
		r[i] = "case" + strconv.Itoa(i)
	}
	return r
}()

func caseName(i int) string {
	if i < len(caseNames) {
		return caseNames[i]
	}
	return "case" + strconv.Itoa(i)
}

// Select is the select statement. Among ready cases the Chooser picks one (Go: uniformly random).
func Select(hasDefault bool, cases ...SelCase) SelResult {
	s := S
	type ci struct {
		m       *chanModel
		foreign reflect.Value
		isNil   bool
	}
	infos := make([]ci, len(cases))
	for i, c := range cases {
		m := s.model(c.ch)
		infos[i].m = m
		if m == nil {
			if chanKey(c.ch) == 0 {
				infos[i].isNil = true
			} else {
				if c.send {
					panic(Unsupported("select send on a foreign channel"))
				}
				infos[i].foreign = reflect.ValueOf(c.ch)
			}
		}
	}
	var readyBuf [8]int
	ready := readyBuf[:0]
	for i, c := range cases {
		in := infos[i]
		switch {
		case in.isNil:
		case in.m != nil:
			if (c.send && in.m.canSend()) || (!c.send && in.m.canRecv()) {
				ready = append(ready, i)
			}
		default:
			if tryForeign(in.foreign) {
				ready = append(ready, i)
			}
		}
	}
	perform := func(i int) SelResult {
		c := cases[i]
		in := infos[i]
		if in.m == nil {
			s.foreignFired(caseName(i), hasDefault)
			return SelResult{I: i, val: nil, ok: false}
		}
		if c.send {
			s.event("sel-send", in.m.nm)
			s.doSend(in.m, c.val)
			return SelResult{I: i}
		}
		if in.m.timer {
			s.event("timer-recv", in.m.nm)
		} else {
			s.event("sel-recv", in.m.nm)
		}
		v, ok := s.doRecv(in.m)
		return SelResult{I: i, val: v, ok: ok}
	}
	if len(ready) > 0 {
		k := 0
		if len(ready) > 1 {
			s.Stats.SelectMulti++
			opts := make([]string, len(ready))
			for j, i := range ready {
				opts[j] = caseName(i)
			}
			k = s.cfg.Chooser.Pick("select", s.cur.Name, opts)
		}
		r := perform(ready[k])
		s.yield()
		return r
	}
	if hasDefault {
		s.event("sel-default", "")
		s.yield()
		return SelResult{I: -1}
	}
	// block on all cases
	st := &selState{}
	for i, c := range cases {
		if infos[i].m == nil {
			continue
		}
		w := &waiter{g: s.cur, sel: st, idx: i, isSend: c.send, val: c.val, vc: s.cur.vc.clone()}
		if c.send {
			infos[i].m.sendq = append(infos[i].m.sendq, w)
		} else {
			infos[i].m.recvq = append(infos[i].m.recvq, w)
		}
	}
	fi := -1
	onlyTimers := true
	for i := range cases {
		if in := infos[i]; in.m == nil || !in.m.timer {
			onlyTimers = false
		}
	}
	if onlyTimers {
		s.event("timer-recv-block", "")
	} else {
		s.event("sel-block", "")
	}
	s.block("select", func() bool {
		if st.fired {
			return true
		}
		for i := range cases {
			in := infos[i]
			if in.m != nil {
				if in.m.closed {
					return true
				}
				continue
			}
			if in.isNil {
				continue
			}
			if tryForeign(in.foreign) {
				fi = i
				return true
			}
		}
		return false
	})
	if st.fired {
		w := st.w
		if infos[w.idx].m.timer {
			s.event("timer-recv-done", caseName(w.idx))
		} else {
			s.event("sel-done", caseName(w.idx))
		}
		s.yield()
		return SelResult{I: w.idx, val: w.val, ok: w.ok}
	}
	st.fired = true // cancels the queued waiters
	if fi >= 0 {
		s.foreignFired(caseName(fi), false)
		s.yield()
		return SelResult{I: fi}
	}
	for i, c := range cases {
		if in := infos[i]; in.m != nil && in.m.closed {
			if c.send {
				panic("send on closed channel")
			}
			s.cur.vc.join(in.m.cvc)
			s.event("sel-closed", in.m.nm)
			s.yield()
			return SelResult{I: i}
		}
	}
	panic(fmt.Sprintf("simrt: select woke without cause (%s)", s.cur.Name))
}

//go:build !passthrough

package simrt

import (
	"strconv"
	"time"
)

// Timers on the simulated clock. A timer channel is a modelled channel of capacity 1 whose value
// is delivered by the clock (not by a goroutine) when simulated time reaches the deadline.

type Timer struct {
	C  <-chan time.Time
	c  chan time.Time
	ev *timerEv
	fn func()
}

func (s *Sim) addTimer(d time.Duration, fire func()) *timerEv {
	if d <= 0 {
		d = 1 // like Sleep: a zero timer still lets a minimal quantum of time pass
	}
	s.ntimer++
	t := &timerEv{at: s.now + d, seq: s.ntimer, fire: fire, owner: s.cur.Name}
	s.timers = append(s.timers, t)
	return t
}

func (s *Sim) newTimerChan() chan time.Time {
	s.inTimerSetup = true
	ch := Make[time.Time](1)
	s.inTimerSetup = false
	m := s.model(ch)
	m.timer = true
	m.nm = "tm" + strconv.Itoa(m.id)
	return ch
}

// deliver puts the current time into a timer channel (dropping it if the buffer is full, as the
// runtime does) and wakes a blocked receiver. It runs on the scheduler's stack, not on a goroutine.
func (s *Sim) deliver(ch chan time.Time) {
	m := s.model(ch)
	v := Now()
	if w := popLive(&m.recvq); w != nil {
		w.val, w.ok = v, true
		fire(w)
		return
	}
	if len(m.buf) < m.cap {
		m.buf = append(m.buf, slot{v, nil})
	}
}

func NewTimer(d time.Duration) *Timer {
	s := S
	ch := s.newTimerChan()
	t := &Timer{C: ch, c: ch}
	s.event("timer-new", "")
	t.ev = s.addTimer(d, func() { s.deliver(ch) })
	return t
}

func After(d time.Duration) <-chan time.Time { return NewTimer(d).C }

func AfterFunc(d time.Duration, f func()) *Timer {
	s := S
	t := &Timer{fn: f}
	s.event("timer-new", "func")
	parent := s.cur
	t.ev = s.addTimer(d, func() { s.spawnFromTimer(parent, f) })
	return t
}

func (s *Sim) spawnFromTimer(parent *G, f func()) {
	parent.nspawn++
	g := s.newG(parent.Name+"/timer#"+strconv.Itoa(parent.nspawn), parent)
	s.start(g, f)
}

func (t *Timer) Stop() bool {
	active := t.ev != nil && !t.ev.dead
	if t.ev != nil {
		t.ev.dead = true
	}
	S.event("timer-stop", "")
	return active
}

func (t *Timer) Reset(d time.Duration) bool {
	s := S
	active := t.ev != nil && !t.ev.dead
	if t.ev != nil {
		t.ev.dead = true
	}
	s.event("timer-new", "reset")
	if t.fn != nil {
		f, parent := t.fn, s.cur
		t.ev = s.addTimer(d, func() { s.spawnFromTimer(parent, f) })
	} else {
		ch := t.c
		t.ev = s.addTimer(d, func() { s.deliver(ch) })
	}
	return active
}

type Ticker struct {
	C    <-chan time.Time
	c    chan time.Time
	ev   *timerEv
	d    time.Duration
	dead bool
}

func NewTicker(d time.Duration) *Ticker {
	if d <= 0 {
		panic("non-positive interval for NewTicker")
	}
	s := S
	ch := s.newTimerChan()
	t := &Ticker{C: ch, c: ch, d: d}
	s.event("timer-new", "ticker")
	t.arm()
	return t
}

func (t *Ticker) arm() {
	s := S
	t.ev = s.addTimer(t.d, func() {
		s.deliver(t.c)
		if !t.dead {
			t.arm()
		}
	})
}

func (t *Ticker) Stop() {
	t.dead = true
	if t.ev != nil {
		t.ev.dead = true
	}
	S.event("timer-stop", "ticker")
}

func (t *Ticker) Reset(d time.Duration) {
	if t.ev != nil {
		t.ev.dead = true
	}
	t.d, t.dead = d, false
	S.event("timer-new", "ticker-reset")
	t.arm()
}

// Tick is time.Tick: like the real one it returns nil (a channel that blocks for ever) for d <= 0.
func Tick(d time.Duration) <-chan time.Time {
	if d <= 0 {
		return nil
	}
	return NewTicker(d).C
}

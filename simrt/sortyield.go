//go:build !passthrough

package simrt

import (
	"reflect"
	"sort"
)

// Sorting under the simulation: while more than one goroutine is alive every comparison is a
// preemption point and a swap is what it is on the real machine - two loads, then two stores, with a
// preemption point in between. Preempting a goroutine anywhere is legal in Go, so this cannot make
// correct code fail; it lets two goroutines that sort the same slice in place (a data race the
// baton would otherwise hide, because a sort contains no synchronization) interleave and show the
// damage: elements out of order, duplicated or lost.

func sortAlone() bool {
	s := S
	return s == nil || s.cur == nil || len(s.live) < 2
}

func sortYield() {
	s := S
	if s == nil || s.cur == nil || len(s.live) < 2 {
		return
	}
	s.Stats.SortYields++
	s.event("sort-cmp", "")
	s.yield()
}

type yieldingSort struct{ sort.Interface }

func (y yieldingSort) Less(i, j int) bool { sortYield(); return y.Interface.Less(i, j) }

// SortSort/SortStable: the Swap of a user-defined sort.Interface stays one step.
func SortSort(data sort.Interface) {
	if sortAlone() {
		sort.Sort(data)
		return
	}
	sort.Sort(yieldingSort{data})
}

func SortStable(data sort.Interface) {
	if sortAlone() {
		sort.Stable(data)
		return
	}
	sort.Stable(yieldingSort{data})
}

// tornSlice sorts any slice through reflection with the two-phase swap.
type tornSlice struct {
	v    reflect.Value
	less func(i, j int) bool
}

func (t tornSlice) Len() int           { return t.v.Len() }
func (t tornSlice) Less(i, j int) bool { sortYield(); return t.less(i, j) }
func (t tornSlice) Swap(i, j int) {
	et := t.v.Type().Elem()
	a, b := reflect.New(et).Elem(), reflect.New(et).Elem()
	a.Set(t.v.Index(i))
	b.Set(t.v.Index(j))
	sortYield()
	t.v.Index(i).Set(b)
	t.v.Index(j).Set(a)
}

func SortSlice(x interface{}, less func(i, j int) bool) {
	if sortAlone() {
		sort.Slice(x, less)
		return
	}
	sort.Sort(tornSlice{reflect.ValueOf(x), less})
}

func SortSliceStable(x interface{}, less func(i, j int) bool) {
	if sortAlone() {
		sort.SliceStable(x, less)
		return
	}
	sort.Stable(tornSlice{reflect.ValueOf(x), less})
}

func SortStrings(x []string) {
	SortSlice(x, func(i, j int) bool { return x[i] < x[j] })
}

func SortInts(x []int) {
	SortSlice(x, func(i, j int) bool { return x[i] < x[j] })
}

func SortFloat64s(x []float64) {
	SortSlice(x, func(i, j int) bool { return x[i] < x[j] || (x[i] != x[i] && x[j] == x[j]) })
}

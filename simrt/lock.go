//go:build !passthrough

package simrt

// Lock/Unlock protect a harness' own bookkeeping when it is built for the real runtime
// (-tags passthrough). Under the simulation only one goroutine runs at a time: no-ops.
func Lock()   {}
func Unlock() {}

// RealRuntime reports whether the package was built as the passthrough to the real runtime.
const RealRuntime = false

//go:build !passthrough

package simrt

// VC is a vector clock indexed by goroutine id (Go memory model happens-before).
type VC []uint32

func (v VC) clone() VC { return append(VC(nil), v...) }

func (v *VC) tick(i int) {
	for len(*v) <= i {
		*v = append(*v, 0)
	}
	(*v)[i]++
}

func (v *VC) join(o VC) {
	for len(*v) < len(o) {
		*v = append(*v, 0)
	}
	for i, x := range o {
		if x > (*v)[i] {
			(*v)[i] = x
		}
	}
}

// Leq reports a <= b pointwise: everything known at a is known at b (a happens-before-or-equals b).
func Leq(a, b VC) bool {
	for i, x := range a {
		if x == 0 {
			continue
		}
		if i >= len(b) || x > b[i] {
			return false
		}
	}
	return true
}

// Clock returns a snapshot of the current goroutine's vector clock and then ticks it, so that
// two snapshots taken by the same goroutine are strictly ordered.
func Clock() VC {
	g := S.cur
	c := g.vc.clone()
	g.vc.tick(g.ID)
	return c
}

//go:build !passthrough

// Package simrt is a deterministic, single-baton runtime for instrumented Go code.
//
// Real goroutines are used, but exactly one of them runs at any time; every switch happens inside
// a simrt call and is decided by the Chooser, so one seed is one execution. See /verif/DESIGN.md §3.
//
// All state (ids, counters, clocks) lives in the Sim object: nothing survives from one simulated
// run to the next inside a process, so a run's event hash does not depend on its batch position.
package simrt

import (
	"fmt"
	"runtime/debug"
	"sort"
	"strconv"
	"strings"
	"time"
)

type gstate int

const (
	gRunnable gstate = iota
	gBlocked
	gSleeping
	gDone
)

// G is one simulated goroutine.
type G struct {
	ID       int
	Name     string
	SpawnSeq uint64 // sequence number of the "go" event that created it
	wake     chan struct{}
	state    gstate
	ready    func() bool // for gBlocked: may it continue now?
	until    time.Duration
	envSleep bool // the current/last sleep was an environment (harness) sleep
	sleeps   int  // number of non-environment sleeps started
	nspawn   int
	vc       VC
	why      string
	// interval bookkeeping (see liveness in DESIGN §3.7)
	nonIdle bool // did a non-idle event since the last forced clock advance
}

type Verdict string

const (
	VOK       Verdict = "ok"
	VDeadlock Verdict = "deadlock"
	VLivelock Verdict = "livelock"
	VCapped   Verdict = "capped"
	VPanic    Verdict = "panic"
	VHung     Verdict = "hung" // real wall-clock watchdog: the simulator itself got stuck
)

type Event struct {
	Seq  uint64        `json:"seq"`
	At   time.Duration `json:"at"`
	G    string        `json:"g"`
	Kind string        `json:"kind"`
	Obj  string        `json:"obj,omitempty"`
}

type Config struct {
	Chooser     Chooser
	MaxSteps    int    // scheduler steps per run; exceeding it gives VCapped (never a violation)
	LoneLimit   int    // consecutive lone poll intervals that make a livelock verdict
	MapBase     string // base order handed to the chooser by MapKeys: asc (default) | desc | rot
	YieldOnMake bool   // treat channel creation as a preemption point
	YieldOnMap  bool   // treat the start of a range-over-map loop as a preemption point
	// KeepGlobals: consecutive simulated runs are executions inside ONE process (mapsim): mutexes and
	// sync.Map values that outlive a run keep their state. Default (dagsim): one run = one process,
	// such values start every run fresh.
	KeepGlobals  bool
	ClockAdvance bool           // offer "advance the clock" as a scheduling option while goroutines are runnable
	KeepTrace    bool           // keep the full event list (replays, samples)
	WallLimit    time.Duration  // real-time watchdog for one run
	OnSettled    func(g string) // called at a settled point (see settle detection), on the scheduler's stack
	// OnQuiescent is called when no goroutine can run and everything pending on the clock is an
	// environment sleep: the system under test has nothing scheduled and will not move before the
	// environment does (event-driven code settles like this; polling code settles through OnSettled)
	OnQuiescent   func()
	OnForeignFire func(seq uint64, polled bool)
}

type Stats struct {
	Steps, Switches, ClockJumps, VoluntaryClock, ForeignFired int
	MapDecisions, MapNonSorted, MapKeyTies                    int
	SelectMulti, MutexContended, ChanSendBlocked              int
	Settled, TimersFired, BusyAdvance, SortYields, Quiescent  int
}

type timerEv struct {
	at    time.Duration
	seq   uint64
	fire  func()
	dead  bool
	owner string
}

type Sim struct {
	cfg      Config
	gs       []*G // all goroutines ever created (index = ID)
	live     []*G // not yet finished, in creation order
	cur      *G
	now      time.Duration
	seq      uint64
	steps    int
	chans    map[uintptr]*chanModel
	nchan    int
	nmutex   int
	ntimer   uint64
	mapCalls uint64
	atomVC   map[uintptr]*VC
	timers   []*timerEv
	verdict  Verdict
	panicMsg string
	finished chan struct{}
	aborted  bool
	Trace    []Event
	hash     uint64
	Stats    Stats

	// interval bookkeeping between two forced clock advances
	ran        []*G // distinct goroutines that ran since the last forced advance
	prevLone   []*G // runner set of the previous closed interval
	prevQuiet  []*G // runner set of the previous quiet interval
	loneCount  int
	quietCount int
	wokeEnv    bool // a clock advance of this interval woke at least one environment sleeper

	FirstForeign uint64 // seq of the first fired receive on a foreign channel (0 = none)
	sinceAdvance int    // scheduling steps since the clock last moved
	inTimerSetup bool   // a timer channel is being created (no preemption there)
	enabledBuf   []*G
	optBuf       []string
}

// S is the simulation currently running in this process (one at a time).
var S *Sim

// Run executes mainFn as goroutine "main" under a fresh simulation and returns when every
// simulated goroutine has finished or a verdict (deadlock/livelock/capped/panic/hung) was reached.
func Run(cfg Config, mainFn func()) *Sim {
	if cfg.MaxSteps == 0 {
		cfg.MaxSteps = 400000
	}
	if cfg.LoneLimit == 0 {
		cfg.LoneLimit = 20000
	}
	if cfg.WallLimit == 0 {
		cfg.WallLimit = 120 * time.Second
	}
	s := &Sim{cfg: cfg, chans: map[uintptr]*chanModel{}, finished: make(chan struct{}), verdict: VOK, hash: 14695981039346656037}
	S = s
	s.registerPreinit()
	g := s.newG("main", nil)
	s.cur = g
	s.noteRan(g)
	s.start(g, mainFn)
	g.wake <- struct{}{}
	wd := time.NewTimer(cfg.WallLimit)
	select {
	case <-s.finished:
		wd.Stop()
	case <-wd.C:
		s.verdict = VHung
	}
	S = nil
	return s
}

func (s *Sim) Verdict() Verdict   { return s.verdict }
func (s *Sim) PanicMsg() string   { return s.panicMsg }
func (s *Sim) Hash() uint64       { return s.hash }
func (s *Sim) Now() time.Duration { return s.now }
func (s *Sim) Seq() uint64        { return s.seq }
func (s *Sim) Steps() int         { return s.steps }
func (s *Sim) Goroutines() int    { return len(s.gs) }

func (s *Sim) newG(name string, parent *G) *G {
	g := &G{ID: len(s.gs), Name: name, wake: make(chan struct{}, 1)}
	if parent != nil {
		g.vc = parent.vc.clone()
		parent.vc.tick(parent.ID)
	}
	g.vc.tick(g.ID)
	s.gs = append(s.gs, g)
	s.live = append(s.live, g)
	return g
}

func (s *Sim) start(g *G, fn func()) {
	go func() {
		<-g.wake
		defer func() {
			if r := recover(); r != nil {
				if s.verdict == VOK {
					s.verdict = VPanic
					s.panicMsg = fmt.Sprintf("%v\n%s", r, debug.Stack())
				}
				s.aborted = true
			}
			g.state = gDone
			for i, o := range s.live {
				if o == g {
					s.live = append(s.live[:i], s.live[i+1:]...)
					break
				}
			}
			s.event("exit", "")
			s.schedule()
		}()
		fn()
	}()
}

// idle event kinds do not count as progress of the goroutine that performs them.
func idleKind(kind string) bool {
	switch kind {
	case "sleep", "sel-default", "sel-block", "foreign-fired", "frecv-block", "timer-new", "timer-stop", "timer-recv",
		"timer-recv-block", "timer-recv-done", "yield", "atomic-load", "maprange", "sort-cmp":
		return true
	}
	return false
}

func (s *Sim) event(kind, obj string) uint64 {
	s.seq++
	name := ""
	if s.cur != nil {
		name = s.cur.Name
		if !idleKind(kind) {
			s.cur.nonIdle = true
		}
	}
	h := s.hash
	for _, str := range [3]string{name, kind, obj} {
		for i := 0; i < len(str); i++ {
			h ^= uint64(str[i])
			h *= 1099511628211
		}
		h ^= 0xff
		h *= 1099511628211
	}
	h ^= uint64(s.now)
	h *= 1099511628211
	s.hash = h
	if s.cfg.KeepTrace {
		s.Trace = append(s.Trace, Event{s.seq, s.now, name, kind, obj})
	}
	return s.seq
}

// Note records a harness-level event in the trace and returns its sequence number.
func Note(kind, obj string) uint64 { return S.event(kind, obj) }

func (s *Sim) noteRan(g *G) {
	for _, o := range s.ran {
		if o == g {
			return
		}
	}
	s.ran = append(s.ran, g)
}

func hasG(set []*G, g *G) bool {
	for _, o := range set {
		if o == g {
			return true
		}
	}
	return false
}

func sameSet(a, b []*G) bool {
	if len(a) != len(b) {
		return false
	}
	for _, g := range a {
		if !hasG(b, g) {
			return false
		}
	}
	return true
}

// schedule picks the next goroutine to run and hands the baton over. It is called by the current
// goroutine and returns when that goroutine is chosen again.
func (s *Sim) schedule() {
	me := s.cur
	for {
		if s.aborted {
			s.finishAbort(me)
			return
		}
		s.steps++
		if s.steps > s.cfg.MaxSteps {
			s.verdict = VCapped
			s.aborted = true
			continue
		}
		enabled := s.enabledBuf[:0]
		for _, g := range s.live {
			switch g.state {
			case gRunnable:
				enabled = append(enabled, g)
			case gBlocked:
				if g.ready != nil && g.ready() {
					enabled = append(enabled, g)
				}
			}
		}
		s.enabledBuf = enabled
		if len(s.live) == 0 {
			close(s.finished)
			return
		}
		pending := s.pendingWakeups()
		// Real time passes while goroutines run: a busy loop that never blocks (a poll on a channel
		// that is always ready, a zero-length timer) must not freeze the clock for everybody else.
		s.sinceAdvance++
		if s.sinceAdvance > busyQuantum && pending > 0 && len(enabled) > 0 {
			s.Stats.BusyAdvance++
			s.advanceClock()
			continue
		}
		if len(enabled) == 0 {
			if pending == 0 {
				s.verdict = VDeadlock
				s.aborted = true
				continue
			}
			s.forcedAdvance(pending)
			continue
		}
		opts := s.optBuf[:0]
		for _, g := range enabled {
			opts = append(opts, g.Name)
		}
		if pending > 0 && s.cfg.ClockAdvance {
			opts = append(opts, "~clock")
		}
		s.optBuf = opts
		pick := 0
		if len(opts) > 1 {
			pick = s.cfg.Chooser.Pick("sched", me.Name, opts)
		}
		if opts[pick] == "~clock" {
			s.Stats.VoluntaryClock++
			s.advanceClock()
			continue
		}
		next := enabled[pick]
		next.state = gRunnable
		next.ready = nil
		s.noteRan(next)
		if next == me {
			return
		}
		s.Stats.Switches++
		s.cur = next
		next.wake <- struct{}{}
		if me.state == gDone {
			return
		}
		<-me.wake
		return
	}
}

func (s *Sim) finishAbort(me *G) {
	// Parked goroutines are leaked on purpose (only for deadlock/livelock/capped/panic verdicts):
	// unwinding them would run deferred unlocks and slot releases inside a dead simulation.
	select {
	case <-s.finished:
	default:
		close(s.finished)
	}
	if me.state != gDone {
		select {}
	}
}

func (s *Sim) pendingWakeups() int {
	n := 0
	for _, g := range s.live {
		if g.state == gSleeping {
			n++
		}
	}
	for _, t := range s.timers {
		if !t.dead {
			n++
		}
	}
	return n
}

// forcedAdvance: nothing is enabled, time must pass. This is also where the liveness bookkeeping
// happens: the interval since the previous forced advance is classified.
func (s *Sim) forcedAdvance(pending int) {
	ran := s.ran
	if s.cfg.OnQuiescent != nil {
		envOnly := false
		for _, g := range s.live {
			if g.state == gSleeping {
				if !g.envSleep {
					envOnly = false
					break
				}
				envOnly = true
			}
		}
		for _, t := range s.timers {
			if !t.dead {
				envOnly = false
			}
		}
		if envOnly {
			s.Stats.Quiescent++
			s.cfg.OnQuiescent()
		}
	}
	// Closed interval: every pending wake-up (sleeper or timer) belongs to a goroutine that ran in
	// this interval and is not an environment sleep: the system is driven solely by goroutines
	// that wake up on the clock, look around and go back to waiting, and nobody else can ever move.
	closed := len(ran) > 0
	for _, g := range s.live {
		if g.state == gSleeping && (g.envSleep || !hasG(ran, g)) {
			closed = false
		}
	}
	for _, t := range s.timers {
		if t.dead {
			continue
		}
		owned := false
		for _, g := range ran {
			if g.Name == t.owner {
				owned = true
			}
		}
		if !owned {
			closed = false
		}
	}
	switch {
	case closed && sameSet(ran, s.prevLone):
		s.loneCount++
	case closed:
		s.loneCount = 1
	default:
		s.loneCount = 0
	}
	if closed {
		s.prevLone = append(s.prevLone[:0], ran...)
		if s.loneCount >= s.cfg.LoneLimit {
			s.verdict = VLivelock
			s.aborted = true
			return
		}
	} else {
		s.prevLone = s.prevLone[:0]
	}
	// Settle detection: every runner of the interval woke from an internal (non-environment) sleep
	// or timer, performed only idle events and went back to waiting; twice in a row with the same
	// set of runners.
	quiet := len(ran) > 0 && !s.wokeEnv
	for _, g := range ran {
		if g.nonIdle || g.state == gDone {
			quiet = false
		}
	}
	switch {
	case quiet && sameSet(ran, s.prevQuiet):
		s.quietCount++
	case quiet:
		s.quietCount = 1
	default:
		s.quietCount = 0
	}
	if quiet {
		s.prevQuiet = append(s.prevQuiet[:0], ran...)
		if s.quietCount >= 2 && s.cfg.OnSettled != nil {
			s.Stats.Settled++
			for _, g := range ran {
				s.cfg.OnSettled(g.Name)
			}
		}
	} else {
		s.prevQuiet = s.prevQuiet[:0]
	}
	s.ran = s.ran[:0]
	for _, g := range s.live {
		g.nonIdle = false
	}
	s.wokeEnv = false
	s.Stats.ClockJumps++
	s.advanceClock()
}

// busyQuantum: after this many consecutive scheduling steps without any clock movement, time is
// advanced to the next pending wake-up even though goroutines are runnable.
const busyQuantum = 300

// advanceClock moves time to the earliest pending wake-up and releases everything due.
func (s *Sim) advanceClock() {
	s.sinceAdvance = 0
	first := true
	var min time.Duration
	for _, g := range s.live {
		if g.state == gSleeping && (first || g.until < min) {
			min, first = g.until, false
		}
	}
	for _, t := range s.timers {
		if !t.dead && (first || t.at < min) {
			min, first = t.at, false
		}
	}
	if first {
		return
	}
	if min > s.now {
		s.now = min
	}
	for _, g := range s.live {
		if g.state == gSleeping && g.until <= s.now {
			g.state = gRunnable
			if g.envSleep {
				s.wokeEnv = true
			}
		}
	}
	// fire due timers in (at, seq) order
	var due []*timerEv
	rest := s.timers[:0]
	for _, t := range s.timers {
		switch {
		case t.dead:
		case t.at <= s.now:
			due = append(due, t)
		default:
			rest = append(rest, t)
		}
	}
	s.timers = rest
	sort.Slice(due, func(i, j int) bool {
		if due[i].at != due[j].at {
			return due[i].at < due[j].at
		}
		return due[i].seq < due[j].seq
	})
	for _, t := range due {
		t.dead = true
		s.Stats.TimersFired++
		t.fire()
	}
}

func (s *Sim) yield() { s.schedule() }

// block parks the current goroutine until ready() holds.
func (s *Sim) block(why string, ready func() bool) {
	g := s.cur
	g.state = gBlocked
	g.ready = ready
	g.why = why
	s.schedule()
}

// ---- public API used by instrumented code and by harnesses ----

// Yield is a pure scheduling point.
func Yield() { S.event("yield", ""); S.yield() }

// Go starts fn as a new simulated goroutine named after its parent ("<parent>/go#k").
func Go(fn func()) {
	s := S
	p := s.cur
	p.nspawn++
	g := s.newG(p.Name+"/go#"+strconv.Itoa(p.nspawn), p)
	g.SpawnSeq = s.event("go", g.Name)
	s.start(g, fn)
	s.yield()
}

// GoNamed starts a harness goroutine with a fixed name.
func GoNamed(name string, fn func()) {
	s := S
	g := s.newG(name, s.cur)
	g.SpawnSeq = s.event("go", g.Name)
	s.start(g, fn)
	s.yield()
}

func CurName() string     { return S.cur.Name }
func CurSpawnSeq() uint64 { return S.cur.SpawnSeq }
func CurID() int          { return S.cur.ID }
func Active() bool        { return S != nil }

var epoch = time.Date(2026, 1, 1, 0, 0, 0, 0, time.UTC)

func Now() time.Time                  { return epoch.Add(S.now) }
func Since(t time.Time) time.Duration { return Now().Sub(t) }
func Until(t time.Time) time.Duration { return t.Sub(Now()) }

func (s *Sim) sleep(d time.Duration, env bool) {
	g := s.cur
	s.event("sleep", "")
	if d <= 0 {
		d = 1 // a zero sleep still lets a minimal quantum of time pass, like a real busy poll
	}
	g.until = s.now + d
	if !env {
		g.sleeps++
	}
	g.envSleep = env
	g.state = gSleeping
	s.schedule()
}

// Sleep is time.Sleep on the simulated clock (never wakes early).
func Sleep(d time.Duration) { S.sleep(d, false) }

// EnvSleep is Sleep for harness code: it models the environment doing work, so waking from it is
// never mistaken for the system under test polling.
func EnvSleep(d time.Duration) {
	S.cur.nonIdle = true
	S.sleep(d, true)
	S.cur.nonIdle = true
}

// SleepCount reports how many non-environment sleeps the named goroutine has started so far.
func SleepCount(name string) int {
	for _, g := range S.gs {
		if g.Name == name {
			return g.sleeps
		}
	}
	return 0
}

// BlockedCount reports how many unfinished goroutines whose name starts with namePrefix are
// blocked on something whose description starts with whyPrefix ("lock", "send", "recv", ...).
func BlockedCount(namePrefix, whyPrefix string) int {
	n := 0
	for _, g := range S.live {
		if g.state == gBlocked && strings.HasPrefix(g.Name, namePrefix) && strings.HasPrefix(g.why, whyPrefix) {
			n++
		}
	}
	return n
}

// Describe lists every unfinished goroutine with what it waits for (diagnostics).
func (s *Sim) Describe() []string {
	var r []string
	for _, g := range s.gs {
		if g.state != gDone {
			st := [...]string{"runnable", "blocked", "sleeping", "done"}[g.state]
			r = append(r, fmt.Sprintf("%s: %s %s", g.Name, st, g.why))
		}
	}
	return r
}

// Unfinished returns the names of goroutines that had not finished when the run ended.
func (s *Sim) Unfinished() []string {
	var r []string
	for _, g := range s.gs {
		if g.state != gDone {
			r = append(r, g.Name)
		}
	}
	return r
}

module verif/simrt

go 1.23

//go:build !passthrough

package simrt

import (
	"context"
	"fmt"
	"sort"
	"time"
)

// Deadline contexts on the simulated clock: context.WithTimeout/WithDeadline inside instrumented
// code would arm a timer on the real clock. The returned context is a standard cancel context
// (so derived contexts and Done() behave as usual) wrapped to report DeadlineExceeded when the
// simulated timer, not the caller, ended it.

type timeoutCtx struct {
	context.Context
	deadline time.Time
	fired    *bool
}

func (c timeoutCtx) Deadline() (time.Time, bool) { return c.deadline, true }
func (c timeoutCtx) Err() error {
	if c.Context.Err() != nil && *c.fired {
		return context.DeadlineExceeded
	}
	return c.Context.Err()
}

func WithTimeout(parent context.Context, d time.Duration) (context.Context, context.CancelFunc) {
	return WithDeadline(parent, Now().Add(d))
}

func WithDeadline(parent context.Context, t time.Time) (context.Context, context.CancelFunc) {
	inner, cancel := context.WithCancel(parent)
	fired := false
	c := timeoutCtx{inner, t, &fired}
	if pd, ok := parent.Deadline(); ok && pd.Before(t) {
		c.deadline = pd
	}
	tm := AfterFunc(Until(t), func() {
		if inner.Err() == nil {
			fired = true
		}
		cancel()
	})
	return c, func() { tm.Stop(); cancel() }
}

// Map models sync.Map: every operation is a scheduling point and synchronizes through the map's
// clock; Range visits a snapshot of the entries in an order chosen by the Chooser.
type Map struct {
	m     map[interface{}]interface{}
	keys  []interface{} // insertion order (deterministic base order for Range)
	vc    VC
	owner *Sim
}

func (m *Map) sync(kind string) {
	s := S
	if m.owner != s {
		if m.owner != nil && s.cfg.KeepGlobals {
			// several simulated runs model one process (mapsim): package-level state carries over
			m.owner, m.vc = s, nil
		} else {
			// a package-level map of the code under test starts every simulated run empty (new process)
			*m = Map{owner: s}
		}
	}
	g := s.cur
	g.vc.join(m.vc)
	m.vc.join(g.vc)
	g.vc.tick(g.ID)
	s.event(kind, "")
}

func (m *Map) Load(k interface{}) (interface{}, bool) {
	m.sync("map-load")
	v, ok := m.m[k]
	S.yield()
	return v, ok
}

func (m *Map) store(k, v interface{}) {
	if m.m == nil {
		m.m = map[interface{}]interface{}{}
	}
	if _, ok := m.m[k]; !ok {
		m.keys = append(m.keys, k)
	}
	m.m[k] = v
}

func (m *Map) Store(k, v interface{}) { m.sync("map-store"); m.store(k, v); S.yield() }

func (m *Map) LoadOrStore(k, v interface{}) (interface{}, bool) {
	m.sync("map-store")
	old, ok := m.m[k]
	if !ok {
		m.store(k, v)
		old = v
	}
	S.yield()
	return old, ok
}

func (m *Map) remove(k interface{}) {
	delete(m.m, k)
	for i, x := range m.keys {
		if x == k {
			m.keys = append(m.keys[:i], m.keys[i+1:]...)
			break
		}
	}
}

func (m *Map) LoadAndDelete(k interface{}) (interface{}, bool) {
	m.sync("map-store")
	v, ok := m.m[k]
	if ok {
		m.remove(k)
	}
	S.yield()
	return v, ok
}

func (m *Map) Delete(k interface{}) { m.LoadAndDelete(k) }

func (m *Map) Swap(k, v interface{}) (interface{}, bool) {
	m.sync("map-store")
	old, ok := m.m[k]
	m.store(k, v)
	S.yield()
	return old, ok
}

func (m *Map) CompareAndSwap(k, o, n interface{}) bool {
	m.sync("map-store")
	cur, ok := m.m[k]
	if ok && cur == o {
		m.store(k, n)
	} else {
		ok = false
	}
	S.yield()
	return ok
}

func (m *Map) CompareAndDelete(k, o interface{}) bool {
	m.sync("map-store")
	cur, ok := m.m[k]
	if ok && cur == o {
		m.remove(k)
	} else {
		ok = false
	}
	S.yield()
	return ok
}

func (m *Map) Range(f func(k, v interface{}) bool) {
	m.sync("map-load")
	keys := append([]interface{}(nil), m.keys...)
	// base order: sorted by printed key so that it does not depend on insertion history alone
	sort.SliceStable(keys, func(i, j int) bool { return fmt.Sprint(keys[i]) < fmt.Sprint(keys[j]) })
	s := S
	for i := len(keys) - 1; i > 0; i-- {
		j := s.cfg.Chooser.Pick("map", s.cur.Name, idxOpts(i+1))
		keys[i], keys[j] = keys[j], keys[i]
	}
	S.yield()
	for _, k := range keys {
		v, ok := m.m[k]
		if !ok {
			continue
		}
		if !f(k, v) {
			break
		}
	}
}

func (m *Map) Clear() {
	m.sync("map-store")
	m.m, m.keys = nil, nil
	S.yield()
}

// ContextAfterFunc models context.AfterFunc: f runs on its own goroutine once ctx is done, unless
// stop was called first.
func ContextAfterFunc(ctx context.Context, f func()) (stop func() bool) {
	stopped, started := false, false
	Go(func() {
		recvAny(S, ctx.Done())
		if stopped {
			return
		}
		started = true
		f()
	})
	return func() bool {
		if started || stopped {
			return false
		}
		stopped = true
		return true
	}
}

// OnceFunc, OnceValue and OnceValues model the sync helpers of the same names.
func OnceFunc(f func()) func() {
	var o Once
	return func() { o.Do(f) }
}

func OnceValue[T any](f func() T) func() T {
	var o Once
	var v T
	return func() T {
		o.Do(func() { v = f() })
		return v
	}
}

func OnceValues[T1, T2 any](f func() (T1, T2)) func() (T1, T2) {
	var o Once
	var v1 T1
	var v2 T2
	return func() (T1, T2) {
		o.Do(func() { v1, v2 = f() })
		return v1, v2
	}
}

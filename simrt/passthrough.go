//go:build passthrough

// Passthrough implementation of the simrt API (DESIGN §8.3): every call maps 1:1 to the real
// primitive. Building an instrumented copy with -tags passthrough and running the repository's own
// tests on it separates "the rewriting preserved the program" from "the runtime model is right".
package simrt

import (
	"context"
	"reflect"
	"runtime"
	"sort"
	"sync"
	"sync/atomic"
	"time"
	"unsafe"
)

type (
	Mutex     = sync.Mutex
	RWMutex   = sync.RWMutex
	WaitGroup = sync.WaitGroup
	Once      = sync.Once
	Cond      = sync.Cond
	Locker    = sync.Locker
	Pool      = sync.Pool
	Timer     = time.Timer
	Ticker    = time.Ticker

	AtomicInt32   = atomic.Int32
	AtomicInt64   = atomic.Int64
	AtomicUint32  = atomic.Uint32
	AtomicUint64  = atomic.Uint64
	AtomicUintptr = atomic.Uintptr
	AtomicBool    = atomic.Bool
	AtomicValue   = atomic.Value
)

type AtomicPointer[T any] struct{ atomic.Pointer[T] }

func NewCond(l sync.Locker) *sync.Cond { return sync.NewCond(l) }

func Make[T any](n ...int) chan T {
	if len(n) > 0 {
		return make(chan T, n[0])
	}
	return make(chan T)
}
func Send[T any](ch chan<- T, v T)        { ch <- v }
func Recv[T any](ch <-chan T) T           { return <-ch }
func Recv2[T any](ch <-chan T) (T, bool)  { v, ok := <-ch; return v, ok }
func RecvOK[T any](ch <-chan T) (T, bool) { v, ok := <-ch; return v, ok }
func Close[T any](ch chan<- T)            { close(ch) }
func Len[T any](ch chan T) int            { return len(ch) }
func Cap[T any](ch chan T) int            { return cap(ch) }
func Go(fn func())                        { go fn() }
func Yield()                              { runtime.Gosched() }

func Sleep(d time.Duration)                      { time.Sleep(d) }
func Now() time.Time                             { return time.Now() }
func Since(t time.Time) time.Duration            { return time.Since(t) }
func Until(t time.Time) time.Duration            { return time.Until(t) }
func After(d time.Duration) <-chan time.Time     { return time.After(d) }
func AfterFunc(d time.Duration, f func()) *Timer { return time.AfterFunc(d, f) }
func NewTimer(d time.Duration) *Timer            { return time.NewTimer(d) }
func NewTicker(d time.Duration) *Ticker          { return time.NewTicker(d) }
func Tick(d time.Duration) <-chan time.Time      { return time.Tick(d) }

type SelCase struct{ c reflect.SelectCase }

func CaseRecv[T any](ch <-chan T) SelCase {
	return SelCase{reflect.SelectCase{Dir: reflect.SelectRecv, Chan: reflect.ValueOf(ch)}}
}
func CaseSend[T any](ch chan<- T, v T) SelCase {
	return SelCase{reflect.SelectCase{Dir: reflect.SelectSend, Chan: reflect.ValueOf(ch), Send: reflect.ValueOf(v)}}
}

type SelResult struct {
	I   int
	val reflect.Value
	ok  bool
}

func Select(hasDefault bool, cases ...SelCase) SelResult {
	cs := make([]reflect.SelectCase, 0, len(cases)+1)
	for _, c := range cases {
		cs = append(cs, c.c)
	}
	if hasDefault {
		cs = append(cs, reflect.SelectCase{Dir: reflect.SelectDefault})
	}
	i, v, ok := reflect.Select(cs)
	if hasDefault && i == len(cases) {
		return SelResult{I: -1}
	}
	return SelResult{I: i, val: v, ok: ok}
}

func SelVal[T any](ch <-chan T, r SelResult) T {
	if !r.val.IsValid() {
		var z T
		return z
	}
	return r.val.Interface().(T)
}
func SelVal2[T any](ch <-chan T, r SelResult) (T, bool) { return SelVal(ch, r), r.ok }

// MapKeys returns the keys in Go's native (randomized) iteration order.
func MapKeys[K comparable, V any](m map[K]V) []K {
	keys := make([]K, 0, len(m))
	for k := range m {
		keys = append(keys, k)
	}
	return keys
}
func MapKeysAny[K comparable, V any](m map[K]V) []K { return MapKeys(m) }
func ZeroK[K comparable, V any](m map[K]V) (z K)    { return }
func ZeroV[K comparable, V any](m map[K]V) (z V)    { return }

func LoadInt32(p *int32) int32                         { return atomic.LoadInt32(p) }
func LoadInt64(p *int64) int64                         { return atomic.LoadInt64(p) }
func LoadUint32(p *uint32) uint32                      { return atomic.LoadUint32(p) }
func LoadUint64(p *uint64) uint64                      { return atomic.LoadUint64(p) }
func LoadUintptr(p *uintptr) uintptr                   { return atomic.LoadUintptr(p) }
func LoadPointer(p *unsafe.Pointer) unsafe.Pointer     { return atomic.LoadPointer(p) }
func StoreInt32(p *int32, v int32)                     { atomic.StoreInt32(p, v) }
func StoreInt64(p *int64, v int64)                     { atomic.StoreInt64(p, v) }
func StoreUint32(p *uint32, v uint32)                  { atomic.StoreUint32(p, v) }
func StoreUint64(p *uint64, v uint64)                  { atomic.StoreUint64(p, v) }
func StoreUintptr(p *uintptr, v uintptr)               { atomic.StoreUintptr(p, v) }
func StorePointer(p *unsafe.Pointer, v unsafe.Pointer) { atomic.StorePointer(p, v) }
func AddInt32(p *int32, d int32) int32                 { return atomic.AddInt32(p, d) }
func AddInt64(p *int64, d int64) int64                 { return atomic.AddInt64(p, d) }
func AddUint32(p *uint32, d uint32) uint32             { return atomic.AddUint32(p, d) }
func AddUint64(p *uint64, d uint64) uint64             { return atomic.AddUint64(p, d) }
func AddUintptr(p *uintptr, d uintptr) uintptr         { return atomic.AddUintptr(p, d) }
func SwapInt32(p *int32, v int32) int32                { return atomic.SwapInt32(p, v) }
func SwapInt64(p *int64, v int64) int64                { return atomic.SwapInt64(p, v) }
func SwapUint32(p *uint32, v uint32) uint32            { return atomic.SwapUint32(p, v) }
func SwapUint64(p *uint64, v uint64) uint64            { return atomic.SwapUint64(p, v) }
func SwapUintptr(p *uintptr, v uintptr) uintptr        { return atomic.SwapUintptr(p, v) }
func CompareAndSwapInt32(p *int32, o, n int32) bool    { return atomic.CompareAndSwapInt32(p, o, n) }
func CompareAndSwapInt64(p *int64, o, n int64) bool    { return atomic.CompareAndSwapInt64(p, o, n) }
func CompareAndSwapUint32(p *uint32, o, n uint32) bool { return atomic.CompareAndSwapUint32(p, o, n) }
func CompareAndSwapUint64(p *uint64, o, n uint64) bool { return atomic.CompareAndSwapUint64(p, o, n) }
func CompareAndSwapUintptr(p *uintptr, o, n uintptr) bool {
	return atomic.CompareAndSwapUintptr(p, o, n)
}

// ---- harness-facing API on the real runtime (DESIGN §14.4: real-run cross-check) ----
// The same harness, built with -tags passthrough against the UNINSTRUMENTED repository, runs its
// scenarios with real goroutines, real channels and the real clock. Vector clocks do not exist
// here (Leq is vacuously true); everything else is evaluated by the same oracles.

type VC []uint32

func Leq(a, b VC) bool { return true }
func Clock() VC        { return nil }

type Verdict string

const (
	VOK       Verdict = "ok"
	VDeadlock Verdict = "deadlock"
	VLivelock Verdict = "livelock"
	VCapped   Verdict = "capped"
	VPanic    Verdict = "panic"
	VHung     Verdict = "hung"
)

type Event struct {
	Seq  uint64        `json:"seq"`
	At   time.Duration `json:"at"`
	G    string        `json:"g"`
	Kind string        `json:"kind"`
	Obj  string        `json:"obj,omitempty"`
}

type Config struct {
	Chooser       Chooser
	MaxSteps      int
	LoneLimit     int
	MapBase       string
	YieldOnMake   bool
	YieldOnMap    bool
	KeepGlobals   bool
	OnQuiescent   func()
	ClockAdvance  bool
	KeepTrace     bool
	WallLimit     time.Duration
	OnSettled     func(g string)
	OnForeignFire func(seq uint64, polled bool)
}

type Stats struct {
	Steps, Switches, ClockJumps, VoluntaryClock, ForeignFired int
	MapDecisions, MapNonSorted, MapKeyTies                    int
	SelectMulti, MutexContended, ChanSendBlocked              int
	Settled, TimersFired, BusyAdvance, SortYields, Quiescent  int
}

type Sim struct {
	cfg          Config
	start        time.Time
	seq          uint64
	verdict      Verdict
	panicMsg     string
	mu           sync.Mutex
	Trace        []Event
	Stats        Stats
	FirstForeign uint64
}

var S *Sim
var harnessMu sync.Mutex

// Lock/Unlock protect the harness' own bookkeeping when its task functions run on real,
// concurrently executing goroutines.
func Lock()   { harnessMu.Lock() }
func Unlock() { harnessMu.Unlock() }

const RealRuntime = true

func Run(cfg Config, mainFn func()) *Sim {
	if cfg.WallLimit == 0 {
		cfg.WallLimit = 20 * time.Second
	}
	s := &Sim{cfg: cfg, start: time.Now(), verdict: VOK}
	S = s
	done := make(chan struct{})
	go func() {
		defer close(done)
		defer func() {
			if r := recover(); r != nil {
				s.verdict = VPanic
				s.panicMsg = "panic on the real runtime"
			}
		}()
		mainFn()
	}()
	select {
	case <-done:
	case <-time.After(cfg.WallLimit):
		s.verdict = VHung
	}
	return s
}

func (s *Sim) Verdict() Verdict     { return s.verdict }
func (s *Sim) PanicMsg() string     { return s.panicMsg }
func (s *Sim) Hash() uint64         { return 0 }
func (s *Sim) Now() time.Duration   { return time.Since(s.start) }
func (s *Sim) Seq() uint64          { return atomic.LoadUint64(&s.seq) }
func (s *Sim) Steps() int           { return 0 }
func (s *Sim) Unfinished() []string { return nil }

func Note(kind, obj string) uint64 {
	s := S
	q := atomic.AddUint64(&s.seq, 1)
	if s.cfg.KeepTrace {
		s.mu.Lock()
		s.Trace = append(s.Trace, Event{q, time.Since(s.start), "", kind, obj})
		s.mu.Unlock()
	}
	return q
}

func GoNamed(name string, fn func())                { go fn() }
func CurName() string                               { return "" }
func CurSpawnSeq() uint64                           { return 0 }
func CurID() int                                    { return 0 }
func SleepCount(name string) int                    { return 0 }
func BlockedCount(namePrefix, whyPrefix string) int { return 0 }
func EnvSleep(d time.Duration)                      { time.Sleep(d) }

type Map = sync.Map

func WithTimeout(parent context.Context, d time.Duration) (context.Context, context.CancelFunc) {
	return context.WithTimeout(parent, d)
}
func WithDeadline(parent context.Context, t time.Time) (context.Context, context.CancelFunc) {
	return context.WithDeadline(parent, t)
}

func ContextAfterFunc(ctx context.Context, f func()) (stop func() bool) {
	return context.AfterFunc(ctx, f)
}
func OnceFunc(f func()) func()                                 { return sync.OnceFunc(f) }
func OnceValue[T any](f func() T) func() T                     { return sync.OnceValue(f) }
func OnceValues[T1, T2 any](f func() (T1, T2)) func() (T1, T2) { return sync.OnceValues(f) }

func SortSort(data sort.Interface)                            { sort.Sort(data) }
func SortStable(data sort.Interface)                          { sort.Stable(data) }
func SortStrings(x []string)                                  { sort.Strings(x) }
func SortInts(x []int)                                        { sort.Ints(x) }
func SortFloat64s(x []float64)                                { sort.Float64s(x) }
func SortSlice(x interface{}, less func(i, j int) bool)       { sort.Slice(x, less) }
func SortSliceStable(x interface{}, less func(i, j int) bool) { sort.SliceStable(x, less) }

func MakeNamed[C ~chan E, E any](n ...int) C {
	if len(n) > 0 {
		return make(C, n[0])
	}
	return make(C)
}

//go:build !passthrough

package simrt

import (
	"cmp"
	"sort"
)

// MapKeys returns the keys of m in an order decided by the simulation: the keys are sorted, put
// into the run's base order (Config.MapBase: asc, desc or a rotation) and then permuted by the
// Chooser with a Fisher-Yates pass. Any permutation is a legal Go iteration order.
// Outside a simulation (S == nil) it returns the sorted keys.
func MapKeys[K cmp.Ordered, V any](m map[K]V) []K {
	keys := make([]K, 0, len(m))
	for k := range m { // native order is erased by the sort below
		keys = append(keys, k)
	}
	sort.Slice(keys, func(i, j int) bool { return keys[i] < keys[j] })
	s := S
	if s != nil && s.cfg.YieldOnMap && s.cur != nil {
		// Starting to iterate a map is no synchronization, but code that walks a shared table twice
		// ("reset all marks; then visit") is only wrong if somebody else runs in between.
		s.event("maprange", "")
		s.yield()
	}
	if s == nil || len(keys) < 2 {
		return keys
	}
	s.Stats.MapDecisions++
	n := len(keys)
	switch s.cfg.MapBase {
	case "desc":
		for i, j := 0, n-1; i < j; i, j = i+1, j-1 {
			keys[i], keys[j] = keys[j], keys[i]
		}
	case "rot":
		s.mapCalls++
		r := int(s.mapCalls % uint64(n))
		rot := make([]K, 0, n)
		rot = append(rot, keys[r:]...)
		rot = append(rot, keys[:r]...)
		keys = rot
	}
	who := s.cur.Name
	nonSorted := s.cfg.MapBase == "desc" || s.cfg.MapBase == "rot"
	for i := n - 1; i > 0; i-- {
		j := s.cfg.Chooser.Pick("map", who, idxOpts(i+1))
		if j != i {
			nonSorted = true
		}
		keys[i], keys[j] = keys[j], keys[i]
	}
	if nonSorted {
		s.Stats.MapNonSorted++
	}
	return keys
}

var idxCache [][]string

func idxOpts(n int) []string {
	for len(idxCache) <= n {
		k := len(idxCache)
		o := make([]string, k)
		for i := range o {
			o[i] = string(rune('0'+i/100)) + string(rune('0'+i/10%10)) + string(rune('0'+i%10))
		}
		idxCache = append(idxCache, o)
	}
	return idxCache[n]
}

// ZeroK and ZeroV give the rewriter typed zero values for the loop variables of a rewritten
// range-over-map statement.
func ZeroK[K comparable, V any](m map[K]V) (z K) { return }
func ZeroV[K comparable, V any](m map[K]V) (z V) { return }

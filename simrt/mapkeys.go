//go:build !passthrough

package simrt

import (
	"cmp"
	"fmt"
	"reflect"
	"sort"
	"strings"
)

// MapKeys returns the keys of m in an order decided by the simulation: the keys are sorted, put
// into the run's base order (Config.MapBase: asc, desc or a rotation) and then permuted by the
// Chooser with a Fisher-Yates pass. Any permutation is a legal Go iteration order.
// Outside a simulation (S == nil) it returns the sorted keys.
func MapKeys[K cmp.Ordered, V any](m map[K]V) []K {
	keys := make([]K, 0, len(m))
	for k := range m { // native order is erased by the sort below
		keys = append(keys, k)
	}
	sort.Slice(keys, func(i, j int) bool { return keys[i] < keys[j] })
	return permuteKeys(keys)
}

// MapKeysAny is MapKeys for key types without an order of their own (pointers, structs,
// interfaces): the canonical order is that of a deep, address-free rendering of the keys (what a
// pointer points to, field by field), so that it is the same in every process. Keys that render
// alike keep Go's native relative order; such ties are counted (Stats.MapKeyTies).
func MapKeysAny[K comparable, V any](m map[K]V) []K {
	type kr struct {
		k K
		r string
	}
	ks := make([]kr, 0, len(m))
	for k := range m {
		var b strings.Builder
		renderKey(reflect.ValueOf(k), 3, &b)
		ks = append(ks, kr{k, b.String()})
	}
	sort.SliceStable(ks, func(i, j int) bool { return ks[i].r < ks[j].r })
	keys := make([]K, len(ks))
	for i := range ks {
		keys[i] = ks[i].k
		if i > 0 && ks[i].r == ks[i-1].r && S != nil {
			S.Stats.MapKeyTies++
		}
	}
	return permuteKeys(keys)
}

func renderKey(v reflect.Value, depth int, b *strings.Builder) {
	if !v.IsValid() {
		b.WriteString("nil")
		return
	}
	switch v.Kind() {
	case reflect.Bool:
		fmt.Fprint(b, v.Bool())
	case reflect.Int, reflect.Int8, reflect.Int16, reflect.Int32, reflect.Int64:
		fmt.Fprintf(b, "%020d", v.Int())
	case reflect.Uint, reflect.Uint8, reflect.Uint16, reflect.Uint32, reflect.Uint64, reflect.Uintptr:
		fmt.Fprintf(b, "%020d", v.Uint())
	case reflect.Float32, reflect.Float64:
		fmt.Fprint(b, v.Float())
	case reflect.Complex64, reflect.Complex128:
		fmt.Fprint(b, v.Complex())
	case reflect.String:
		fmt.Fprintf(b, "%q", v.String())
	case reflect.Ptr, reflect.Interface:
		if v.IsNil() {
			b.WriteString("nil")
		} else if depth > 0 {
			b.WriteByte('&')
			renderKey(v.Elem(), depth-1, b)
		} else {
			b.WriteString(v.Type().String())
		}
	case reflect.Struct:
		b.WriteByte('{')
		if depth > 0 {
			for i := 0; i < v.NumField(); i++ {
				renderKey(v.Field(i), depth-1, b)
				b.WriteByte(',')
			}
		}
		b.WriteByte('}')
	case reflect.Slice, reflect.Array:
		b.WriteByte('[')
		for i := 0; i < v.Len() && i < 8 && depth > 0; i++ {
			renderKey(v.Index(i), depth-1, b)
			b.WriteByte(',')
		}
		fmt.Fprintf(b, "#%d]", v.Len())
	case reflect.Map:
		fmt.Fprintf(b, "map#%d", v.Len())
	default: // func, chan, unsafe pointer: nothing stable to show but the type
		b.WriteString(v.Type().String())
	}
}

func permuteKeys[K any](keys []K) []K {
	s := S
	if s != nil && s.cfg.YieldOnMap && s.cur != nil {
		// Starting to iterate a map is no synchronization, but code that walks a shared table twice
		// ("reset all marks; then visit") is only wrong if somebody else runs in between.
		s.event("maprange", "")
		s.yield()
	}
	if s == nil || len(keys) < 2 {
		return keys
	}
	s.Stats.MapDecisions++
	n := len(keys)
	switch s.cfg.MapBase {
	case "desc":
		for i, j := 0, n-1; i < j; i, j = i+1, j-1 {
			keys[i], keys[j] = keys[j], keys[i]
		}
	case "rot":
		s.mapCalls++
		r := int(s.mapCalls % uint64(n))
		rot := make([]K, 0, n)
		rot = append(rot, keys[r:]...)
		rot = append(rot, keys[:r]...)
		keys = rot
	}
	who := s.cur.Name
	nonSorted := s.cfg.MapBase == "desc" || s.cfg.MapBase == "rot"
	for i := n - 1; i > 0; i-- {
		j := s.cfg.Chooser.Pick("map", who, idxOpts(i+1))
		if j != i {
			nonSorted = true
		}
		keys[i], keys[j] = keys[j], keys[i]
	}
	if nonSorted {
		s.Stats.MapNonSorted++
	}
	return keys
}

var idxCache [][]string

func idxOpts(n int) []string {
	for len(idxCache) <= n {
		k := len(idxCache)
		o := make([]string, k)
		for i := range o {
			o[i] = string(rune('0'+i/100)) + string(rune('0'+i/10%10)) + string(rune('0'+i%10))
		}
		idxCache = append(idxCache, o)
	}
	return idxCache[n]
}

// ZeroK and ZeroV give the rewriter typed zero values for the loop variables of a rewritten
// range-over-map statement.
func ZeroK[K comparable, V any](m map[K]V) (z K) { return }
func ZeroV[K comparable, V any](m map[K]V) (z V) { return }
